"""C08 - a formula printed from a BDD is equivalent on the care set and
re-parses; its disjuncts are boxes inside f \\/ ~care that cover f."""
import itertools

from vlib import fmodel as fm
from vlib import readout as ro
from vlib.props import _cover as cv

ID = 'C08'
LEVEL = 'exploration'
RULE = ('ALL non-empty predicates over one variable of each sign class '
        '(ranges 0..3, -2..1, -4..-1) and over the two-variable grids '
        '0..3x0..1, -2..1x0..1, -4..-1x0..1 (thorough: also 0..7, three '
        'and four 0..1 variables, 0..3x-2..1 samples; both tiers: every fourth (thorough: every) cyclic-core predicate over four 0..1 variables) x care in {TRUE, '
        'hints, f|g, a care set missing a point of f} x printing options '
        'show_dom x show_limits x comment; Context.to_expr output (the '
        'documented placeholder conjunct "care expression" read as TRUE) '
        'must be accepted by Context.add_expr, agree with f on every care '
        'point, and decompose into the displayed hints/limits and disjuncts '
        'that are non-empty boxes of interval atoms containing no care point '
        'outside f and together containing every point of f (inside the '
        'hints when clipping to hints is in effect). non-trivial = at least '
        'two disjuncts; distinct = (grid, f, care, options, back end)')
ASSUMPTIONS = ['dd trusted', 'the printed string is also parsed by the '
               'library\'s parser into a tree that the independent reference '
               'evaluator must map to the same table as Context.add_expr']
CASE_TIMEOUT = 120
OPTS_ALL = list(itertools.product([False, True], repeat=3))
OPTS_4 = [(False, False, True), (True, False, False), (False, True, False),
          (True, True, True)]


def shards(tier, seed):
    out = []
    for g in ('g4', 's4', 'n4'):
        out.append(dict(grid=g, lo=1, hi=15, opts='all', backend='cudd'))
        out.append(dict(grid=g, lo=1, hi=15, opts='4', backend='autoref'))
    for g in ('g42', 's42', 'n42'):
        for lo in range(1, 256, 16):
            out.append(dict(grid=g, lo=lo, hi=min(lo + 15, 255),
                            opts='all' if tier == 'thorough' else '4',
                            backend='cudd'))
    if tier == 'thorough':
        for g in ('g8', 'b3'):
            for lo in range(1, 256, 16):
                out.append(dict(grid=g, lo=lo, hi=min(lo + 15, 255),
                                opts='4', backend='cudd'))
        for g in ('b4', 'g44', 'n44', 'pn44'):
            off = (seed * 5 + 1) % 16
            for lo in range(0, 4096, 64):
                out.append(dict(grid=g, spread=[off, lo, lo + 64],
                                opts='2', backend='cudd'))
    else:
        for g in ('b3', 'g8'):
            for lo in range(1 + seed % 4, 256, 64):
                out.append(dict(grid=g, lo=lo, hi=min(lo + 15, 255),
                                opts='2', backend='cudd'))
        off = (seed * 5 + 1) % 16
        for lo in range(0, 4096, 1024):
            out.append(dict(grid='pn44', spread=[off, lo, lo + 32],
                            opts='2', backend='cudd'))
    # four 0..1 variables: every fourth (thorough: every) predicate whose
    # covering problem has a non-empty cyclic core, care = TRUE
    for lo in range(1, 65536, 1024):
        out.append(dict(grid='b4', cyclic=[lo, min(lo + 1023, 65535)],
                        every=1 if tier == 'thorough' else 4,
                        offset=seed % 4, opts='2', backend='cudd',
                        care_only='TRUE'))
    return out


def cases(shard):
    g = shard['grid']
    opts = dict(all=OPTS_ALL, **{'4': OPTS_4, '2': OPTS_4[1:3]})[shard['opts']]
    if 'cyclic' in shard:
        from vlib.props.c09 import _cyclic
        fs = [f for i, f in enumerate(_cyclic(g, *shard['cyclic']))
              if i % shard['every'] == shard['offset'] % shard['every']]
    elif 'spread' in shard:
        off, lo, hi = shard['spread']
        fs = [1 + (off + 16 * i) % 65535 for i in range(lo, hi)]
    else:
        fs = range(shard['lo'], shard['hi'] + 1)
    n = len(cv.space_of(g))
    for f in fs:
        for cname, cm in cv.care_menu(g, f):
            if f == (1 << n) - 1 and cm == f:
                continue
            if shard.get('care_only') and cname != shard['care_only']:
                continue
            for sd, sl, cm_ in opts:
                yield dict(grid=g, f=f, care=cm, care_name=cname,
                           backend=shard['backend'], show_dom=sd,
                           show_limits=sl, comment=cm_)


def run_case(case, acc):
    ctx, f, care, names, sp = cv.build(case['grid'], case['f'], case['care'],
                                       case['backend'])
    s = ctx.to_expr(f, care=care, show_dom=case['show_dom'],
                    show_limits=case['show_limits'], comment=case['comment'])
    check_printed(ctx, s, case, acc, names, sp)


def check_printed(ctx, s, case, acc, names, sp, key=None):
    decl = dict(cv.GRIDS[case['grid']])
    F = set(ro.mask_rows(sp, case['f']))
    C = set(ro.mask_rows(sp, case['care']))
    if not isinstance(s, str):
        acc.ev()
        acc.violation('not_a_string', case, detail=repr(s)[:200])
        return
    s2 = s.replace('care expression', 'TRUE')
    try:
        g = ctx.add_expr(s2)
    except Exception as exc:  # noqa
        acc.ev()
        acc.violation('printed_formula_not_accepted', case,
                      detail=dict(formula=s, error=repr(exc)[:300]))
        return
    rd = ro.Reader(ctx, names)
    Tg = rd.table(g)
    bad = [p for p in C if (p in Tg) != (p in F)]
    if bad:
        acc.ev()
        acc.violation('differs_from_f_on_care_set', case, detail=dict(
            vars=names, point=sorted(bad)[0], formula=s,
            f_true=sorted(bad)[0] in F))
        return
    # independent parse and evaluation
    # The layout uses junction lists, which the documented grammar does
    # not describe (indentation is ignored by omega's parser), so the tree
    # is taken from omega's parser and evaluated by the reference model.
    import omega.logic.lexyacc as lexyacc
    tree = fm.from_omega(_parser(lexyacc).parse(s2))
    ranges = {n: ro.rep_range(decl[n]) for n in names}
    model = fm.Model(ranges)
    Tm, undef = fm.truth_table(model, tree, names)
    if Tm != Tg or undef:
        acc.ev()
        acc.violation('printed_formula_parsed_differently', case,
                      detail=dict(formula=s, only_library=sorted(Tg - Tm)[:3],
                                  only_reference=sorted(Tm - Tg)[:3]))
        return
    # structure: displayed limits / hints, then the disjuncts
    dep = cv.reference(case['grid'], case['f'], case['care'])[0]
    hints_hold = all(all(decl[n][0] <= p[names.index(n)] <= decl[n][1]
                         for n in dep) for p in C)
    dom_on = bool(case['show_dom']) and hints_hold
    conj = _flat(tree, '/\\')
    expected_pre = []
    if case['show_limits']:
        for n in sorted(dep):
            r = ranges[n]
            expected_pre.append(('\\in', n, ('..', str(r[0]), str(r[-1]))))
    if dom_on:
        for n in sorted(dep):
            expected_pre.append(('\\in', n, ('..', str(decl[n][0]),
                                            str(decl[n][1]))))
    # Which hint / limit lines are displayed, in which order and how often
    # is not specified (the equivalence on the care set was checked above):
    # the leading conjuncts that ARE such lines are set aside, at most as
    # many as there could be; what follows must be the cover.
    allowed = set(map(repr, expected_pre))
    k = 0
    while k < min(len(conj), len(expected_pre)) and repr(conj[k]) in allowed:
        k += 1
    if sorted(map(repr, conj[:k])) != sorted(map(repr, expected_pre)):
        acc.count('displayed_hint_lines_differ_from_the_pinned_layout')
    rest = [t for t in conj[k:] if t != 'TRUE']
    if rest == ['FALSE']:
        disj = []    # the empty disjunction
    elif len(rest) == 1 and isinstance(rest[0], tuple) and \
            rest[0][0] == '\\/':
        disj = [[a for a in _flat(d, '/\\') if a != 'TRUE']
                for d in _flat(rest[0], '\\/')]
    else:
        disj = [rest]
    boxes = []
    for atoms in disj:
        box = {}
        for a in atoms:
            iv = _interval(a)
            if iv is None or iv[0] not in names or iv[0] in box:
                acc.ev()
                acc.violation('disjunct_not_a_box_of_intervals', case,
                              detail=dict(formula=s, atom=fm.show(a)
                                          if not isinstance(a, str) else a))
                return
            box[iv[0]] = (iv[1], iv[2])
        boxes.append(box)
    acc.ev(key or dict(c=case), nontrivial=len(boxes) >= 2)

    def inside(p, box):
        return all(box[n][0] <= p[i] <= box[n][1]
                   for i, n in enumerate(names) if n in box)
    for box in boxes:
        if any(a > b for a, b in box.values()):
            acc.violation('empty_disjunct', case, detail=dict(
                formula=s, box=box))
            return
        pts = [p for p in sp if inside(p, box)]
        if not pts:
            acc.violation('empty_disjunct', case, detail=dict(
                formula=s, box=box))
            return
        bad = [p for p in pts if p in C and p not in F]
        if bad:
            acc.violation('disjunct_contains_care_point_outside_f', case,
                          detail=dict(formula=s, box=box, point=bad[0]))
            return

    def in_hints(p):
        return all(decl[n][0] <= p[i] <= decl[n][1]
                   for i, n in enumerate(names) if n in dep)
    must = [p for p in F if (in_hints(p) if dom_on else True)]
    unc = [p for p in must if not any(inside(p, b) for b in boxes)]
    if unc:
        acc.violation('point_of_f_in_no_disjunct', case, detail=dict(
            vars=names, formula=s, point=sorted(unc)[0],
            clipping_to_hints=dom_on))


_PARSER = []


def _parser(lexyacc):
    if not _PARSER:
        _PARSER.append(lexyacc.Parser())
    return _PARSER[0]


def _flat(t, op):
    if isinstance(t, tuple) and t[0] == op and len(t) == 3:
        return _flat(t[1], op) + _flat(t[2], op)
    return [t]


def _interval(a):
    """(var, lo, hi) of an interval atom, else None."""
    if not isinstance(a, tuple):
        return None
    if a[0] == '=' and isinstance(a[1], str) and isinstance(a[2], str) \
            and a[2].lstrip('-').isdigit():
        return (a[1], int(a[2]), int(a[2]))
    if a[0] == '\\in' and isinstance(a[1], str):
        return (a[1], int(a[2][1]), int(a[2][2]))
    return None
