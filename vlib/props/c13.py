"""C13 - generated code computes outputs satisfying the relation."""
import itertools
import re

from vlib import readout as ro

ID = 'C13'
LEVEL = 'exploration'
RULE = ('(a) relations u(state, out\') from a formula menu over inputs of all '
        'three sign classes and Booleans (and 11/12-bit integers), outputs integer / Boolean / both / '
        'ignored, plus relations given as explicit tables, plus ALL 255 relations '
        'between x:(-1,1) and a Boolean output and (quick: 2048 spread; '
        'thorough: all 65535) between x:(-1,1) and y\':(-1,1): '
        'dumps_bdds_as_code, exec in a fresh namespace, step() called on '
        'EVERY state of the full bit ranges that has an admissible output: '
        'exactly the requested keys, and (state, result) in the relation\'s '
        'table. (b) dumps_bdd_as_code: ALL 256 functions of 3 bits as roots '
        '(single, in pairs sharing nodes, with complemented edges on both '
        'back ends), Python text executed on all 8 inputs, C text '
        'compiled with g++ (fallback without a compiler: token-mapped to Python) (latches declared from the text, out_bits a small map type) and run on all 8 inputs. evaluations = '
        'program executions; non-trivial = relation not functional or root '
        'not constant; distinct = (relation/root, outputs, back end)')
ASSUMPTIONS = ['dd trusted', 'C output is a fragment (no declarations): it '
               'is wrapped in declarations derived from its own text before '
               'compiling; if no C++ compiler is installed only the token '
               'mapping and the statement grammar are checked (counted)']
CASE_TIMEOUT = 120

DECLS = {
    'N': dict(x=(0, 2), y=(0, 2)),
    'S': dict(x=(-3, 2), y=(-3, 2)),
    'M': dict(x=(-3, -1), y=(0, 6)),
    'B': dict(x=(0, 2), p='bool', y=(-1, 1), q='bool'),
    'W': dict(x=(-5, 7), y=(0, 20)),
    # bitfields of 11 and 12 bits (bit names with two-digit indices)
    'X': dict(x=(0, 2047), y=(0, 2047)),
    'Y': dict(x=(-1500, 1500), y=(-1500, 1500)),
}
# (decl, formula, out_vars)
RELATIONS = [
    ('N', "y' = x", ["y'"]), ('N', "y' = x - y", ["y'"]),
    ('N', "y' <= x", ["y'"]), ('N', "(y' = x + 1) \\/ (y' = 0)", ["y'"]),
    ('N', "(x < 3) => (y' > x)", ["y'"]), ('N', "y' # y", ["y'"]),
    ('N', "x' + y' = x + y", ["x'", "y'"]),
    ('N', "y' = x", ["y'", "x'"]),
    ('S', "y' = x", ["y'"]), ('S', "y' = 0 - x", ["y'"]),
    ('S', "y' < x", ["y'"]), ('S', "y' = x + y", ["y'"]),
    ('S', "(x < 0) => (y' = x + 1)", ["y'"]),
    ('S', "(y' = x) \\/ (y' = y)", ["y'"]),
    ('S', "x' = y /\\ y' = x", ["x'", "y'"]),
    ('S', "y' * 2 = x", ["y'"]),
    ('M', "y' = x + 4", ["y'"]), ('M', "y' = 0 - x", ["y'"]),
    ('M', "x' = x /\\ y' > 0 - x", ["x'", "y'"]),
    ('M', "x' = 0 - y - 1", ["x'"]), ('M', "y' + x = 3", ["y'"]),
    ('M', "x' <= x", ["x'"]),
    ('B', "p' <=> (x = 2)", ["p'"]), ('B', "q' <=> ~ p", ["q'"]),
    ('B', "y' = ite(p, 1, -1)", ["y'"]),
    ('B', "(p' <=> q) /\\ (y' = y)", ["p'", "y'"]),
    ('B', "p => (y' = x - 1)", ["y'"]),
    ('B', "(y' < y) \\/ (q' /\\ ~ q)", ["y'", "q'"]),
    ('B', "x' = ite(q /\\ p, x, 0)", ["x'"]),
    ('B', "p' <=> p", ["p'", "q'"]),
    ('B', "(y < 0) => (p' /\\ x' = 3)", ["p'", "x'"]),
    # Mealy style: the relation reads next values that are not outputs;
    # they are part of the state handed to step()
    ('N', "y' = x' - 1", ["y'"]), ('B', "(y' = x' - 1) /\\ (p' <=> ~ q')",
                                   ["y'", "p'"]),
    ('S', "(y' = x') \\/ (y' = x)", ["y'"]),
    ('W', "y' = x + 8", ["y'"]), ('W', "(x < 0) => (y' = 0 - x)", ["y'"]),
    ('W', "x' = x /\\ y' = y", ["x'", "y'"]),
    ('W', "y' = ite(x > y, x, y)", ["y'"]),
    ('X', "(y' = x) /\\ (y = 0)", ["y'"]),
    ('X', "(y' = 2047 - x) /\\ (y = 3)", ["y'"]),
    ('Y', "(y' = 0 - x) /\\ (y = 1)", ["y'"]),
    ('Y', "(y' = x) /\\ (x' = y) /\\ (y = -1024)", ["x'", "y'"]),
]
# explicit tables: (decl, vars, list of rows, outs)
TABLES = [
    ('S', ['x', "y'"], [(-4, 3), (-3, -4), (-1, 0), (0, -1), (3, 2), (3, -2)],
     ["y'"]),
    ('M', ['x', 'y', "x'"], [(-4, 0, -1), (-1, 7, -4), (-2, 3, -2),
                             (-2, 3, -3), (-3, 1, -1)], ["x'"]),
    ('B', ['p', 'y', "q'", "y'"], [(True, -2, False, 1), (False, -2, True, -2),
                                   (True, 1, True, 0), (False, 0, False, -1),
                                   (False, 0, True, 1)], ["q'", "y'"]),
]


def shards(tier, seed):
    out = [dict(kind='rel', i=i, backend=be)
           for i in range(len(RELATIONS) + len(TABLES))
           for be in ('cudd', 'autoref')
           # the 11/12-bit relations on the C back end only (minutes in the
           # pure-Python manager)
           if not (be == 'autoref' and i < len(RELATIONS) and
                   RELATIONS[i][0] in ('X', 'Y'))]
    for lo in range(0, 256, 16):
        for be in ('cudd', 'autoref'):
            out.append(dict(kind='roots', lo=lo, hi=lo + 16, backend=be))
    # ALL relations between x:(-1,1) (4 values) and a Boolean / a 4-valued
    # output, as explicit tables
    for lo in range(1, 256, 32):
        out.append(dict(kind='alltab', out='bool', lo=lo, hi=lo + 32))
    if tier == 'thorough':
        for lo in range(1, 65536, 512):
            out.append(dict(kind='alltab', out='int', lo=lo, hi=lo + 512))
    else:
        off = (seed * 13) % 32
        out.append(dict(kind='alltab', out='int', spread=[off, 0, 2048]))
    return out


def cases(shard):
    if shard['kind'] == 'alltab':
        if 'spread' in shard:
            off, lo, hi = shard['spread']
            ms = [1 + (off + 32 * i) % 65535 for i in range(lo, hi)]
        else:
            ms = range(shard['lo'], min(shard['hi'],
                                        256 if shard['out'] == 'bool'
                                        else 65536))
        for m in ms:
            yield dict(kind='alltab', out=shard['out'], mask=m)
        return
    if shard['kind'] == 'rel':
        yield dict(kind='rel', i=shard['i'], backend=shard['backend'])
    else:
        for f in range(shard['lo'], shard['hi']):
            yield dict(kind='roots', f=f, backend=shard['backend'])


def run_case(case, acc):
    if case['kind'] == 'alltab':
        return run_alltab(case, acc)
    if case['kind'] == 'rel':
        run_rel(case, acc)
    else:
        run_roots(case, acc)


def run_rel(case, acc):
    import omega.symbolic.temporal as trl
    import omega.symbolic.codegen as cg
    i = case['i']
    aut = trl.Automaton()
    if case['backend'] == 'autoref':
        import dd.autoref
        aut.bdd = dd.autoref.BDD()
    if i < len(RELATIONS):
        dname, formula, outs = RELATIONS[i]
        aut.declare_variables(**DECLS[dname])
        u = aut.add_expr(formula)
        desc = dict(decl=DECLS[dname], formula=formula, outs=outs)
    else:
        dname, tv, rows, outs = TABLES[i - len(RELATIONS)]
        aut.declare_variables(**DECLS[dname])
        u = ro.Reader(aut, tv).from_rows(rows)
        desc = dict(decl=DECLS[dname], table_vars=tv, rows=rows, outs=outs)
    case = dict(case, **desc)
    decl = DECLS[dname]
    state_vars = sorted(decl)
    # primed variables the relation reads without being asked to output them
    extra = sorted({ro_owner(aut, b) for b in aut.bdd.support(u)} -
                   set(state_vars) - set(outs))
    state_vars = state_vars + extra
    names = state_vars + outs
    T = ro.Reader(aut, names).table(u) if \
        aut.bdd.support(u) <= set(ro.Reader(aut, names).allbits) else None
    if T is None:
        raise RuntimeError('relation depends on primed non-output variables')
    code = cg.dumps_bdds_as_code(u, list(outs), aut)
    ns = {'__name__': 'generated_by_omega'}
    exec(compile(code, '<generated>', 'exec'), ns)
    step = ns['step']
    ns_ = len(state_vars)
    by_state = {}
    for r in T:
        by_state.setdefault(r[:ns_], set()).add(r[ns_:])
    nonfun = any(len(v) > 1 for v in by_state.values())
    n = 0
    # every state (of the full bit ranges) that has an admissible output
    for st in sorted(by_state, key=repr):
        n += 1
        state = dict(zip(state_vars, st))
        neg_in = any((not isinstance(v, bool)) and v < 0 for v in st)
        bool_in = any(isinstance(v, bool) for v in st)
        try:
            res = step(dict(state))
        except Exception as exc:  # noqa
            acc.ev(n=n)
            acc.violation('generated_step_raises', case, detail=dict(
                state=state, error=repr(exc)[:200]),
                exc=type(exc).__name__, boolean_input=bool_in)
            return
        if set(res) != set(outs):
            acc.ev(n=n)
            acc.violation('wrong_output_keys', case, detail=dict(
                state=state, result=res))
            return
        got = tuple(res[o] for o in outs)
        ok = got in by_state[st] and all(
            isinstance(v, bool) == (decl[o.rstrip("'")] == 'bool')
            for v, o in zip(got, outs))
        if not ok:
            acc.ev(n=n)
            acc.violation('output_not_in_relation', case, detail=dict(
                state=state, result=res,
                admissible=sorted(by_state[st], key=repr)[:6]),
                negative_input=neg_in)
            return
    acc.ev(dict(c=case['i'], b=case['backend']), nontrivial=nonfun, n=max(n, 1))
    acc.count('programs')


def run_alltab(case, acc):
    import omega.symbolic.temporal as trl
    import omega.symbolic.codegen as cg
    aut = trl.Automaton()
    if case['out'] == 'bool':
        aut.declare_variables(x=(-1, 1), p='bool')
        out = "p'"
        ovals = [False, True]
    else:
        aut.declare_variables(x=(-1, 1), y=(-1, 1))
        out = "y'"
        ovals = ro.rep_range((-1, 1))
    xs = ro.rep_range((-1, 1))
    pairs = list(itertools.product(xs, ovals))
    rows = [pr for i, pr in enumerate(pairs) if case['mask'] >> i & 1]
    u = ro.Reader(aut, ['x', out]).from_rows(rows)
    code = cg.dumps_bdds_as_code(u, [out], aut)
    ns = {'__name__': 'generated_by_omega'}
    exec(compile(code, '<generated>', 'exec'), ns)
    step = ns['step']
    adm = {}
    for x, o in rows:
        adm.setdefault(x, set()).add(o)
    n = 0
    other = 'p' if case['out'] == 'bool' else 'y'
    for x in xs:
        if x not in adm:
            continue
        n += 1
        st = {'x': x, other: ovals[0]}
        try:
            res = step(dict(st))
        except Exception as exc:  # noqa
            acc.ev(n=n)
            acc.violation('generated_step_raises', case, detail=dict(
                state=st, error=repr(exc)[:200]), exc=type(exc).__name__)
            return
        if set(res) != {out} or res[out] not in adm[x] or \
                isinstance(res[out], bool) != (case['out'] == 'bool'):
            acc.ev(n=n)
            acc.violation('output_not_in_relation', case, detail=dict(
                state=st, result=res, admissible=sorted(adm[x])))
            return
    acc.ev(dict(c=case), nontrivial=any(len(v) > 1 for v in adm.values()),
           n=max(n, 1))
    acc.count('programs')


def ro_owner(aut, bit):
    for v in aut.vars:
        if bit in ro.bits_of(aut, v):
            return v
    return bit


def _c_to_python(code):
    out = []
    for line in code.splitlines():
        if line.strip().startswith('//'):
            continue
        line = line.rstrip()
        if line.endswith(';'):
            line = line[:-1]
        # a declaration in front of an assignment is fine in C
        line = re.sub(r'^(\s*)(?:(?:const|static|bool|_Bool|int)\s+)+'
                      r'(?=[A-Za-z_]\w*\s*=)', r'\1', line)
        line = line.replace('&&', ' and ').replace('||', ' or ')
        line = re.sub(r'!(?!=)', ' not ', line)
        line = re.sub(r'\btrue\b', 'True', line)
        line = re.sub(r'\bfalse\b', 'False', line)
        out.append(line)
    return '\n'.join(out)


def run_roots(case, acc):
    import omega.symbolic.codegen as cg
    f = case['f']
    if case['backend'] == 'autoref':
        import dd.autoref as mod
        bdd = mod.BDD()
    else:
        import dd.cudd as mod
        bdd = mod.BDD(memory_estimate=2**26, initial_cache_size=2**8)
    bits = ['b0', 'b1', 'b2']
    bdd.declare(*bits)
    space = list(itertools.product([False, True], repeat=3))

    def mk(mask):
        u = bdd.false
        for i, r in enumerate(space):
            if mask >> i & 1:
                u |= bdd.cube(dict(zip(bits, r)))
        return u
    u = mk(f)
    g = (f * 37 + 11) % 256
    roots_list = [dict(out=u), dict(out=u, neg=~u),
                  dict(first=u, second=mk(g), third=mk(f & g))]
    n = 0
    c_fragments = []
    for roots in roots_list:
        masks = {}
        for name, w in roots.items():
            masks[name] = {r for r in space
                           if bdd.let(dict(zip(bits, r)), w) == bdd.true}
        for lang in ('python', 'c'):
            code = cg.dumps_bdd_as_code(roots, bdd, lang=lang)
            pycode = code
            if lang == 'c':
                n += 1
                c_fragments.append((roots, masks, code))
                if _have_cxx():
                    continue      # compiled and run below: the real oracle
                # without a compiler, a fallback for the layout the pinned
                # tree emits: statement grammar, then a token mapping
                why = _c_statements_malformed(code)
                if why:
                    acc.ev(n=n)
                    acc.violation('emitted_c_code_malformed', case,
                                  detail=dict(why=why, code=code[:800]))
                    return
                pycode = _c_to_python(code)
            for r in space:
                n += 1
                ns = dict(zip(bits, r))
                ns['out_bits'] = {}
                try:
                    exec(pycode, ns)
                except Exception as exc:  # noqa
                    acc.ev(n=n)
                    acc.violation('emitted_code_fails', case, detail=dict(
                        lang=lang, error=repr(exc)[:200], code=code[:600]))
                    return
                for name in roots:
                    if ns['out_bits'].get(name) != (r in masks[name]):
                        acc.ev(n=n)
                        acc.violation('emitted_code_wrong_value', case,
                                      detail=dict(lang=lang, root=name,
                                                  inputs=r, code=code[:800]))
                        return
    # the C text, compiled by a real compiler and run on every input
    res = _compile_and_run_c([c for _, _, c in c_fragments], bits)
    if res is None:
        acc.count('c_compiler_not_available')
    elif isinstance(res, str):
        acc.ev(n=n)
        acc.violation('emitted_c_code_does_not_compile', case,
                      detail=dict(compiler_says=res[:600],
                                  code=c_fragments[0][2][:600]))
        return
    else:
        acc.count('c_programs_compiled_and_run')
        for k, (roots, masks, code) in enumerate(c_fragments):
            for m, r in enumerate(space):
                n += 1
                for name in roots:
                    if res.get((k, m, name)) != (r in masks[name]):
                        acc.ev(n=n)
                        acc.violation('emitted_code_wrong_value', case,
                                      detail=dict(lang='c (compiled)',
                                                  root=name, inputs=r,
                                                  got=res.get((k, m, name)),
                                                  code=code[:800]))
                        return
    acc.ev(dict(c=case), nontrivial=f not in (0, 255), n=n)


_C_EXPR_TOKEN = re.compile(
    r'\s*(&&|\|\||!|\(|\)|true\b|false\b|[A-Za-z_]\w*)')


def _c_statements_malformed(code):
    """Why the text is not a sequence of C assignment statements, or None.

    Comments are `// ...` lines; every statement is
    `<latch> = <expr>;` or `out_bits["<name>"] = <expr>;` with <expr> built
    from identifiers, true, false, !, &&, || and balanced parentheses."""
    text = '\n'.join(ln for ln in code.splitlines()
                     if not ln.strip().startswith('//'))
    chunks = text.split(';')
    if chunks[-1].strip():
        return f'text after the last ";": {chunks[-1].strip()[:80]!r}'
    for ch in chunks[:-1]:
        m = re.match(r'\s*([A-Za-z_]\w*|out_bits\["\w+"\])\s*=(?!=)(.*)$',
                     ch, re.S)
        if not m:
            return f'not an assignment: {ch.strip()[:80]!r}'
        expr, pos, depth = m.group(2), 0, 0
        while pos < len(expr):
            if expr[pos:].strip() == '':
                break
            t = _C_EXPR_TOKEN.match(expr, pos)
            if not t:
                return f'unexpected text in expression: {expr[pos:pos+40]!r}'
            depth += {'(': 1, ')': -1}.get(t.group(1), 0)
            if depth < 0:
                return 'unbalanced parentheses'
            pos = t.end()
        if depth:
            return 'unbalanced parentheses'
    return None


_CXX = None


def _have_cxx():
    global _CXX
    import shutil
    if _CXX is None:
        _CXX = shutil.which('g++') or shutil.which('clang++') or False
    return bool(_CXX)


def _compile_and_run_c(fragments, bits):
    """Compile the emitted C fragments (g++; `out_bits` is a tiny map
    type, latches are declared from the text) and run them on every input.

    Returns {(fragment, input index, root name): value}, a compiler
    message (str) if the text does not compile, or None without g++."""
    import shutil
    import subprocess
    import tempfile
    if not _have_cxx():
        return None
    nb = len(bits)
    src = ['extern "C" int printf(const char*, ...);',
           'struct OB { bool v[16]; const char* k[16]; int n;',
           '  bool& operator[](const char* s) {',
           '    for (int i = 0; i < n; i++) { const char *a = k[i], *b = s;',
           '      while (*a && *a == *b) { a++; b++; }',
           '      if (*a == *b) return v[i]; }',
           '    k[n] = s; v[n] = false; return v[n++]; } };',
           'int main() {',
           f'  for (int m = 0; m < {2 ** nb}; m++) {{']
    for i, b in enumerate(bits):
        src.append(f'    bool {b} = (m >> {nb - 1 - i}) & 1;')
    for k, code in enumerate(fragments):
        # temporaries the text assigns without declaring them itself
        # (whatever they are called)
        latches = sorted(set(re.findall(r'^\s*([A-Za-z_]\w*)\s*=(?!=)',
                                        code, re.M)) - set(bits))
        src.append('    {')
        src.append('      OB out_bits; out_bits.n = 0;')
        if latches:
            src.append('      bool ' + ', '.join(latches) + ';')
        src.append(code)
        src.append('      for (int i = 0; i < out_bits.n; i++)')
        src.append(f'        printf("{k} %d %s %d\\n", m, out_bits.k[i], '
                   '(int) out_bits.v[i]);')
        src.append('    }')
    src.append('  }')
    src.append('  return 0;')
    src.append('}')
    try:
        d = tempfile.mkdtemp(prefix='omega_c13_', dir='/var/tmp')
    except OSError:
        try:
            d = tempfile.mkdtemp(prefix='omega_c13_')
        except OSError:
            return None       # nowhere to compile: not omega's fault
    try:
        with open(f'{d}/t.cpp', 'w') as fd:
            fd.write('\n'.join(src))
        try:
            p = subprocess.run(
                [_CXX, '-w', '-O0', '-o', f'{d}/t', f'{d}/t.cpp'],
                capture_output=True, text=True)
        except OSError:
            return None
        if p.returncode:
            if 'error:' not in p.stderr:
                return None   # the tool chain failed, not the program text
            return 'does not compile: ' + p.stderr[-500:]
        try:
            out = subprocess.run([f'{d}/t'], capture_output=True, text=True)
        except OSError:
            return None
        res = {}
        for ln in out.stdout.splitlines():
            k, m, name, v = ln.split()
            res[(int(k), int(m), name)] = bool(int(v))
        return res
    finally:
        shutil.rmtree(d, ignore_errors=True)
