"""Not a property: a module the self-test drives the runner with."""
import os
import signal

ID = 'ZZ'
LEVEL = 'exploration'
RULE = 'self-test of the runner'
ASSUMPTIONS = []
CASE_TIMEOUT = 1


def shards(tier, seed):
    return [dict(n=i) for i in range(6)]


def cases(shard):
    if shard.get('stuck'):
        yield dict(stuck=True)
        return
    for k in range(3):
        yield dict(n=shard['n'], k=k)


def run_case(case, acc):
    acc.ev(case, nontrivial=True)
    if case.get('stuck'):
        # burn CPU with signals blocked: like a loop inside a C library the
        # in-process timer cannot interrupt
        signal.pthread_sigmask(signal.SIG_BLOCK,
                               {signal.SIGPROF, signal.SIGALRM})
        while True:
            pass
    if case == dict(n=4, k=1):
        os.kill(os.getpid(), signal.SIGSEGV)   # the interpreter goes down


def stuck_shards():
    return [dict(stuck=True)]
