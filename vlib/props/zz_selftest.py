"""Not a property: a module the self-test drives the runner with."""
import os
import signal

ID = 'ZZ'
LEVEL = 'exploration'
RULE = 'self-test of the runner'
ASSUMPTIONS = []
CASE_TIMEOUT = 5


def shards(tier, seed):
    return [dict(n=i) for i in range(6)]


def cases(shard):
    for k in range(3):
        yield dict(n=shard['n'], k=k)


def run_case(case, acc):
    acc.ev(case, nontrivial=True)
    if case == dict(n=4, k=1):
        os.kill(os.getpid(), signal.SIGSEGV)   # the interpreter goes down
