"""C10 - enumeration returns exactly all minimum covers by primes."""
from vlib.props import _cover as cv
from vlib.props import c09

ID = 'C10'
LEVEL = 'exploration'
RULE = ('cover problems as in C09 (all predicates over the grids of <= 8 points except 0..7 and -2..1x0..1 in the quick tier, '
        'a spread sample of 128 of each 16-point grid and every other block of 512 (thorough: EVERY) cyclic-core '
        'instances over four 0..1 variables, a committed corpus of 98 32-point instances covering every observed shape of the exhaustive search with a pruned branch (thorough: also the 396-instance corpus of C09); thorough: all 65535 of each); cover_enum.minimize must '
        'terminate without error and its set of BDDs, read out to a set of '
        'sets of boxes, must EQUAL the set of all minimum-cardinality prime '
        'covers found by exhaustive set-cover search; contains the cover of '
        'cover.minimize. non-trivial = more than one minimum cover exists; '
        'distinct = (grid, f, care, back end)')
ASSUMPTIONS = c09.ASSUMPTIONS
CASE_TIMEOUT = 600
EXTRA = [
    dict(grid='b4', f=38840, care=65535, care_name='TRUE', backend='cudd'),
]


def shards(tier, seed):
    if tier == 'thorough':
        # a twelfth of C09's seed-indexed 32-point instances: the
        # enumeration takes up to 30 CPU-seconds on one of them
        return c09.shards(tier, seed, large=2000) + _enum_shards()
    out = c09.shards(tier, seed, spread=128, cyclic_grids=['b4'],
                     small=['b1', 'b2', 'b3', 'g4', 's4', 'n4', 'g42', 'n42'],
                     large=0)
    # the enumeration takes seconds (up to 55 s) on 32-point instances: the
    # quick tier leaves C09's corpus and the seed-indexed instances to the
    # thorough tier and runs the enumeration's own corpus (every instance
    # below 4 s) instead
    res, k = [], 0
    for sh in out:
        if 'corpus' in sh:
            continue
        if 'cyclic' in sh:
            # every cyclic-core instance over four 0..1 variables costs
            # 0.2 s here: the quick tier takes every other block of 512
            # (seed decides which half), C09 takes all
            k += 1
            if (k + seed) % 2:
                continue
        res.append(sh)
    return res + _enum_shards()


def _enum_shards():
    nc = len(_enum_corpus())
    return [dict(enum_corpus=[i, min(i + 2, nc)], backend='cudd')
            for i in range(0, nc, 2)]


_ENUM = None


def _enum_corpus():
    """32-point instances selected (on the pinned tree) by the shape of
    the exhaustive search of `cover_enum` (sequence of cyclic-core /
    traverse / branch / terminal / prune events): one instance per
    observed shape that contains a pruned branch, plus the 40 shortest
    other shapes."""
    global _ENUM
    if _ENUM is None:
        import json
        import os
        p = os.path.join(os.path.dirname(os.path.dirname(
            os.path.abspath(__file__))), 'data', 'c10_enum_corpus.json')
        _ENUM = json.load(open(p))
    return _ENUM


def cases(shard):
    if shard.get('extra'):
        yield from EXTRA + c09.EXTRA
        return
    if 'enum_corpus' in shard:
        for shape, g, m, order in _enum_corpus()[slice(*shard['enum_corpus'])]:
            full = (1 << len(cv.space_of(g))) - 1
            yield dict(grid=g, f=m, care=full, care_name='TRUE',
                       backend=shard['backend'], order=order)
        return
    yield from c09.cases(shard)


def run_case(case, acc):
    import omega.symbolic.cover as cov
    import omega.symbolic.cover_enum as cove
    ctx, f, care, names, sp = cv.build(case['grid'], case['f'], case['care'],
                                       case['backend'],
                                       order=case.get('order', 0))
    dn, primes, k, covers, Fp, Cp = cv.reference(
        case['grid'], case['f'], case['care'])
    acc.ev(dict(c=case), nontrivial=len(covers) >= 2)
    if case['grid'] in ('b5', 'g444'):
        acc.count('sampled_instances_beyond_the_exhaustive_scope')
    ms = cove.minimize(f, care, ctx)
    got = {cv.read_cover(ctx, m, dn) for m in ms}
    if len(got) != len(ms):
        acc.violation('same_cover_returned_twice', case,
                      detail=dict(n_bdds=len(ms), n_distinct=len(got)))
    sizes = {len(c) for c in got}
    if len(sizes) > 1:
        acc.violation('covers_of_different_cardinality', case,
                      detail=dict(sizes=sorted(sizes)))
        return
    extra = got - covers
    missing = covers - got
    if extra:
        c = sorted(extra, key=sorted)[0]
        # say what is wrong with it
        ok = c09.check_cover(c, dn, primes, k, covers, Fp, case, acc, ID)
        if ok:
            acc.violation('returned_cover_not_in_reference', case,
                          detail=dict(cover=sorted(c)))
        return
    if missing:
        acc.violation('minimum_cover_missing', case, detail=dict(
            vars=dn, n_returned=len(got), n_minimum_covers=len(covers),
            a_missing_cover=sorted(sorted(missing, key=sorted)[0])))
        return
    # the single cover of C09 is one of them
    ctx2, f2, care2, _, _ = cv.build(case['grid'], case['f'], case['care'],
                                     case['backend'])
    single = cv.read_cover(ctx2, cov.minimize(f2, care2, ctx2), dn)
    if single not in got:
        acc.violation('single_cover_not_among_enumerated', case,
                      detail=dict(cover=sorted(single)))
