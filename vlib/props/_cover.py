"""Shared by C08, C09, C10: cover problems and their reference solution."""
import itertools

from vlib import boxes as bx
from vlib import readout as ro
from vlib.readout import Reader as Reader2

# declaration sets: (name, hint); masks index the product of full ranges
GRIDS = {
    'b1': [('x', (0, 1))],
    'b2': [('x', (0, 1)), ('y', (0, 1))],
    'b3': [('x', (0, 1)), ('y', (0, 1)), ('z', (0, 1))],
    'b4': [('x', (0, 1)), ('y', (0, 1)), ('z', (0, 1)), ('w', (0, 1))],
    'g4': [('x', (0, 2))],                      # range 0..3, hint 0..2
    's4': [('x', (-1, 1))],                     # range -2..1
    'n4': [('x', (-3, -1))],                    # range -4..-1
    'g8': [('x', (0, 5))],                      # range 0..7
    'g42': [('x', (0, 2)), ('y', (0, 1))],
    's42': [('x', (-1, 1)), ('y', (0, 1))],
    'n42': [('x', (-3, -1)), ('y', (0, 1))],    # -4..-1 x 0..1
    'g44': [('x', (0, 2)), ('y', (-1, 1))],     # 16 points
    'b5': [('x', (0, 1)), ('y', (0, 1)), ('z', (0, 1)), ('w', (0, 1)),
           ('v', (0, 1))],                      # 32 points (sampled only)
    'g444': [('x', (0, 2)), ('y', (0, 2)), ('z', (0, 1))],  # 32 points
    'n44': [('x', (-3, -1)), ('y', (-1, 0))],   # -4..-1 x -2..1
    # two unsigned bitfields of equal width and opposite sign
    'pn44': [('x', (0, 2)), ('y', (-3, -1))],   # 0..3 x -4..-1
}


def space_of(grid):
    return list(itertools.product(
        *[ro.rep_range(h) for _, h in GRIDS[grid]]))


def hint_mask(grid):
    sp = space_of(grid)
    m = 0
    for i, p in enumerate(sp):
        if all(h[0] <= v <= h[1] for v, (_, h) in zip(p, GRIDS[grid])):
            m |= 1 << i
    return m


def care_menu(grid, f):
    """Care sets (masks) for predicate mask `f`: TRUE, hints, f | g."""
    sp = space_of(grid)
    full = (1 << len(sp)) - 1
    out = [('TRUE', full)]
    hm = hint_mask(grid)
    if hm != full:
        out.append(('hints', hm))
    # f union a few fixed sets; and a care set missing part of f
    alt = 0
    for i in range(len(sp)):
        if i % 3 == 0:
            alt |= 1 << i
    out.append(('f|alt', f | alt))
    low = f & ~(f & -f) if f & (f - 1) else f   # f without its lowest point
    out.append(('f_minus_point|alt', (low | (alt >> 1)) & full))
    seen, uniq = set(), []
    for name, m in out:
        if m and m not in seen:
            seen.add(m)
            uniq.append((name, m))
    return uniq


def build(grid, f_mask, care_mask, backend='cudd', order=0):
    """(ctx, f, care, names, space) for a cover problem.

    `order` > 0 declares the auxiliary parameters the cover algorithm will
    use beforehand, in one of several orders: the branch-and-bound search
    branches on the prime that `pick` returns, which follows the BDD
    variable order (a legitimate configuration: same names, same hints)."""
    import omega.symbolic.fol as fol
    ctx = fol.Context()
    if backend == 'autoref':
        import dd.autoref
        ctx.bdd = dd.autoref.BDD()
    decl = GRIDS[grid]
    ctx.declare(**dict(decl))
    names = [n for n, _ in decl]
    if order:
        vs = list(decl)
        if order in (2, 3):
            vs = vs[::-1]
        prefixes = ['a', 'b', 'u', 'v'] if order in (1, 2) else \
            ['v', 'u', 'b', 'a']
        for n, h in vs:
            for pre in prefixes:
                ctx.declare(**{f'{pre}_{n}': h})
    rd = ro.Reader(ctx, names)
    sp = rd.space()
    f = rd.from_rows(ro.mask_rows(sp, f_mask))
    care = rd.from_rows(ro.mask_rows(sp, care_mask))
    return ctx, f, care, names, sp


def reference(grid, f_mask, care_mask):
    """Reference over the variables f or care depend on.

    Returns (vars, primes, k, all minimum covers, f points, care points).
    """
    decl = GRIDS[grid]
    names = [n for n, _ in decl]
    sp = space_of(grid)
    F = set(ro.mask_rows(sp, f_mask))
    C = set(ro.mask_rows(sp, care_mask))
    rngs = [ro.rep_range(h) for _, h in decl]
    # variables on which f or care depend
    dep = []
    for i, n in enumerate(names):
        d = False
        for S in (F, C):
            for p in sp:
                for a in rngs[i]:
                    q = p[:i] + (a,) + p[i + 1:]
                    if (p in S) != (q in S):
                        d = True
                        break
                if d:
                    break
            if d:
                break
        if d:
            dep.append(i)
    dn = [names[i] for i in dep]
    dr = [rngs[i] for i in dep]
    Fp = {tuple(p[i] for i in dep) for p in F}
    Cp = {tuple(p[i] for i in dep) for p in C}
    dsp = list(itertools.product(*dr))
    ok = {p for p in dsp if p in Fp or p not in Cp}
    pr = bx.primes(ok, dr)
    k, covers = bx.min_covers(Fp, pr)
    return dn, pr, k, covers, Fp, Cp


def read_cover(ctx, cover, names):
    """Set of boxes encoded by a BDD over the parameters a_v, b_v.

    The parameter names are the documented ones (`a_<var>`, `b_<var>`); if
    the cover's support shows other names with the suffix `_<var>` (a
    renaming refactor), those are used, lower before upper."""
    supp = ctx.support(cover)
    pn = []
    for n in names:
        doc = ['a_' + n, 'b_' + n]
        other = sorted(v for v in supp if v.endswith('_' + n)
                       and v not in doc)
        if len(other) == 2 and not (set(doc) & supp):
            lo, hi = other
            rows = Reader2(ctx, other).table(ctx.exist(supp - set(other),
                                                      cover))
            if rows and not all(r[0] <= r[1] for r in rows):
                lo, hi = hi, lo
            doc = [lo, hi]
        pn += doc
    rd = ro.Reader(ctx, pn)
    out = set()
    for row in rd.table(cover):
        out.add(tuple((row[2 * i], row[2 * i + 1])
                      for i in range(len(names))))
    return frozenset(out)


def problems(grid, tier, seed, all_f=True):
    """(f_mask, care name, care_mask) triples of a grid."""
    n = len(space_of(grid))
    full = (1 << n) - 1
    for f in range(1, full + 1):
        for cname, cm in care_menu(grid, f):
            if f == full and cm == full:
                continue   # refused by the library (trivial)
            yield f, cname, cm
