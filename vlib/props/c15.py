"""C15 - past-to-future translation: testers track the past on every trace."""
import itertools

from vlib import fmodel as fm
from vlib import pastltl as pl

ID = 'C15'
LEVEL = 'exploration'
RULE = ('ALL formulas of depth <= 2 over {p, q} with ~ /\\ \\/ => <=> -X --X '
        '-[] -<> S, all of depth <= 2 over {p, TRUE, FALSE} with ~ /\\ S and the past operators (and a seed-selected block of depth 3; formulas with an '
        'integer comparison under a past operator), translated by '
        'omega.logic.past.translate; on ALL traces of length 4 (thorough 5) '
        'over the valuations of the variables: exactly one valuation of the '
        'auxiliary variables satisfies init at position 0 and exactly one '
        'successor valuation satisfies trans at every step, and under it the '
        'translated formula equals the anchored past-LTL semantics at every '
        'position. With until=True: U [] <> formulas of depth <= 2 on ALL '
        'lassos with |stem|+|loop| <= 3: exactly one periodic valuation '
        'satisfies trans everywhere and every win condition infinitely '
        'often, and under it the translated formula has the future '
        'semantics. evaluations = (formula, trace) pairs; non-trivial = '
        'formula contains a past/future operator; distinct = formula')
ASSUMPTIONS = [
    'strings produced by omega (init, trans, translated formula) are parsed '
    'by the reference parser and compiled to Python; omega\'s parser is used '
    'only inside translate()']
CASE_TIMEOUT = 120
UN = ['~', '-X', '--X', '-[]', '-<>']
BIN = ['/\\', '\\/', '=>', '<=>', 'S']
CHUNK = 150


def _past_formulas(tier, seed):
    base = pl.formulas(['p', 'q'], 2, UN, BIN)
    # constants as operands (e.g. "~ --X TRUE" = "first position")
    withc = pl.formulas(['p', 'TRUE', 'FALSE'], 2, UN, ['/\\', 'S'])
    withc = [f for f in withc if _mentions_const(f)]
    return base + withc


def _mentions_const(t):
    if isinstance(t, str):
        return t in ('TRUE', 'FALSE')
    return any(_mentions_const(x) for x in t[1:])


def _extra_formulas(tier, seed):
    out = []
    # depth 3: unary operators over depth-2 formulas with a past operator,
    # a seed-selected residue class
    d2 = [f for f in pl.formulas(['p', 'q'], 2, UN, BIN)
          if not isinstance(f, str)]
    k = 7 if tier != 'thorough' else 1
    for i, f in enumerate(d2):
        if i % k != seed % k:
            continue
        for op in ('-X', '--X', '-<>', '-[]'):
            out.append((op, f))
        out.append(('S', f, 'p'))
        out.append(('S', 'q', f))
    return out


INT_FORMS = [
    ('-X', ('>', 'x', '1')), ('--X', ('=', 'x', '0')),
    ('S', 'p', ('<=', 'x', '1')), ('-<>', ('=', ('+', 'x', '1'), '3')),
    ('/\\', ('-X', ('<', 'x', '2')), ('--X', 'p')),
    ('-[]', ('\\/', 'p', ('#', 'x', '2'))),
    ('S', ('>', 'x', '0'), ('/\\', 'p', ('=', 'x', '2'))),
    ('=>', ('--X', ('>=', 'x', '1')), ('-X', ('-X', 'p'))),
]
FUT_UN = ['~', '[]', '<>']
FUT_BIN = ['/\\', '\\/', 'U']


def shards(tier, seed):
    out = []
    n = len(_past_formulas(tier, seed))
    for lo in range(0, n, CHUNK):
        out.append(dict(kind='past', lo=lo, hi=lo + CHUNK, tier=tier,
                        seed=seed))
    n = len(_extra_formulas(tier, seed))
    for lo in range(0, n, CHUNK):
        out.append(dict(kind='extra', lo=lo, hi=lo + CHUNK, tier=tier,
                        seed=seed))
    out.append(dict(kind='int', tier=tier, seed=seed))
    n = len(pl.formulas(['p', 'q'], 2, FUT_UN, FUT_BIN))
    for lo in range(0, n, CHUNK):
        out.append(dict(kind='until', lo=lo, hi=lo + CHUNK, tier=tier,
                        seed=seed))
    return out


def cases(shard):
    tier, seed = shard['tier'], shard['seed']
    L = 5 if tier == 'thorough' else 4
    if shard['kind'] == 'past':
        for f in _past_formulas(tier, seed)[shard['lo']:shard['hi']]:
            yield dict(kind='past', tree=f, length=L)
    elif shard['kind'] == 'extra':
        for f in _extra_formulas(tier, seed)[shard['lo']:shard['hi']]:
            yield dict(kind='past', tree=f, length=4)
    elif shard['kind'] == 'int':
        for f in INT_FORMS:
            yield dict(kind='past', tree=f, length=4, ints=True)
    else:
        fs = pl.formulas(['p', 'q'], 2, FUT_UN, FUT_BIN)
        for f in fs[shard['lo']:shard['hi']]:
            yield dict(kind='until', tree=f)


def _tupled(t):
    if isinstance(t, list):
        return tuple(_tupled(x) for x in t)
    return t


def run_case(case, acc):
    tree = _tupled(case['tree'])
    if case['kind'] == 'until':
        return run_until(case, tree, acc)
    run_past(case, tree, acc)


def _has_temporal(t):
    if isinstance(t, str):
        return False
    return t[0] in ('-X', '--X', '-[]', '-<>', 'S', 'U', '[]', '<>') or any(
        _has_temporal(x) for x in t[1:])


def run_past(case, tree, acc):
    import omega.logic.past as past
    s = fm.show(tree)
    dvars, r, init, trans, win = past.translate(s)
    aux = sorted(dvars)
    f_r = pl.compile_str(r)
    f_init = pl.compile_str(init) if init.strip() else (lambda e: True)
    f_trans = pl.compile_str(trans) if trans.strip() else (lambda e: True)
    if case.get('ints'):
        vals = [dict(p=p, q=q, x=x) for p in (False, True)
                for q in (False,) for x in (0, 1, 2)]
        vals += [dict(p=True, q=True, x=1)]
    else:
        vals = [dict(p=p, q=q) for p in (False, True) for q in (False, True)]
    auxvals = [dict(zip(aux, v))
               for v in itertools.product([False, True], repeat=len(aux))]
    # initial auxiliary valuations per first letter
    init_tab = {}
    for i, v in enumerate(vals):
        sols = []
        for a in auxvals:
            e = dict(v)
            e.update(a)
            if f_init(e):
                sols.append(a)
        init_tab[i] = sols
    # successor auxiliary valuations per (letter, aux, next letter)
    succ_tab = {}
    for (i, v), (j, w) in itertools.product(enumerate(vals), repeat=2):
        for ai, a in enumerate(auxvals):
            e = dict(v)
            e.update(a)
            e.update({k + "'": x for k, x in w.items()})
            sols = []
            for bi, b in enumerate(auxvals):
                e2 = dict(e)
                e2.update({k + "'": x for k, x in b.items()})
                if f_trans(e2):
                    sols.append(bi)
            succ_tab[i, ai, j] = sols
    aidx = {tuple(sorted(a.items())): i for i, a in enumerate(auxvals)}
    L = case['length']
    n = 0
    for word in itertools.product(range(len(vals)), repeat=L):
        n += 1
        trace = [vals[i] for i in word]
        sols = init_tab[word[0]]
        if len(sols) != 1:
            acc.ev(n=n)
            acc.violation('initial_condition_not_unique', case, detail=dict(
                formula=s, init=init, first=trace[0],
                n_solutions=len(sols)), n_solutions=len(sols))
            return
        ai = aidx[tuple(sorted(sols[0].items()))]
        memo = {}
        for pos in range(L):
            e = dict(trace[pos])
            e.update(auxvals[ai])
            got = f_r(e)
            exp = pl.sem(tree, trace, pos, memo)
            if got != exp:
                acc.ev(n=n)
                acc.violation('translated_formula_differs_from_past_semantics',
                              case, detail=dict(
                                  formula=s, translated=r, init=init,
                                  trans=' '.join(trans.split()), trace=trace,
                                  position=pos, translated_value=got,
                                  semantics=exp, testers=auxvals[ai]),
                              mixes_weak_and_strong_previous=_mixes(tree))
                return
            if pos + 1 < L:
                nx = succ_tab[word[pos], ai, word[pos + 1]]
                if len(nx) != 1:
                    acc.ev(n=n)
                    acc.violation('transition_relation_not_unique', case,
                                  detail=dict(formula=s, trans=trans,
                                              trace=trace, position=pos,
                                              n_solutions=len(nx)))
                    return
                ai = nx[0]
    acc.ev(dict(f=s), nontrivial=_has_temporal(tree), n=n)


def _mixes(t):
    """Signature of finding F5: -X v and --X v of the same variable v."""
    weak, strong = set(), set()

    def walk(x):
        if isinstance(x, str):
            return
        if x[0] in ('-X', '--X') and isinstance(x[1], str):
            (weak if x[0] == '-X' else strong).add(x[1])
        for y in x[1:]:
            walk(y)
    walk(t)
    return bool(weak & strong)


def run_until(case, tree, acc):
    import omega.logic.past as past
    s = fm.show(tree)
    dvars, r, init, trans, win = past.translate(s, until=True)
    aux = sorted(dvars)
    f_r = pl.compile_str(r)
    f_init = pl.compile_str(init) if init.strip() else (lambda e: True)
    f_trans = pl.compile_str(trans) if trans.strip() else (lambda e: True)
    f_win = [pl.compile_str(w) for w in win]
    vals = [dict(p=p, q=q) for p in (False, True) for q in (False, True)]
    auxvals = [dict(zip(aux, v))
               for v in itertools.product([False, True], repeat=len(aux))]
    n = 0
    for ls in (1, 2, 3):
        for nstem in range(0, ls):
            nloop = ls - nstem
            for word in itertools.product(range(4), repeat=ls):
                n += 1
                stem = [vals[i] for i in word[:nstem]]
                loop = [vals[i] for i in word[nstem:]]
                w = stem + loop

                def nxt(j):
                    return j + 1 if j + 1 < ls else nstem
                # periodic auxiliary valuations: one per position
                good = []
                for av in itertools.product(range(len(auxvals)), repeat=ls):
                    ok = True
                    for j in range(ls):
                        e = dict(w[j])
                        e.update(auxvals[av[j]])
                        k = nxt(j)
                        e.update({x + "'": y for x, y in w[k].items()})
                        e.update({x + "'": y
                                  for x, y in auxvals[av[k]].items()})
                        if not f_trans(e):
                            ok = False
                            break
                    if not ok:
                        continue
                    # every win condition holds somewhere in the loop
                    for fw in f_win:
                        if not any(fw(dict(w[j], **auxvals[av[j]]))
                                   for j in range(nstem, ls)):
                            ok = False
                            break
                    if ok:
                        e0 = dict(w[0])
                        e0.update(auxvals[av[0]])
                        if f_init(e0):
                            good.append(av)
                if len(good) != 1:
                    acc.ev(n=n)
                    acc.violation('prophecy_valuation_not_unique', case,
                                  detail=dict(formula=s, stem=stem, loop=loop,
                                              n_solutions=len(good),
                                              trans=' '.join(trans.split()),
                                              win=win))
                    return
                av = good[0]
                memo = {}
                for j in range(ls):
                    got = f_r(dict(w[j], **auxvals[av[j]]))
                    exp = pl.sem_lasso(tree, stem, loop, j, memo)
                    if got != exp:
                        acc.ev(n=n)
                        acc.violation(
                            'translated_formula_differs_from_future_semantics',
                            case, detail=dict(formula=s, translated=r,
                                              stem=stem, loop=loop,
                                              position=j))
                        return
    acc.ev(dict(f=s, u=1), nontrivial=_has_temporal(tree), n=n)
