"""C15 - past-to-future translation: testers track the past on every trace."""
import itertools

from vlib import fmodel as fm
from vlib import pastltl as pl

ID = 'C15'
LEVEL = 'exploration'
RULE = ('ALL formulas of depth <= 2 over {p, q} with ~ /\\ \\/ => <=> -X --X '
        '-[] -<> S, all of depth <= 2 over {p, TRUE, FALSE} with ~ /\\ S and the past operators (and a seed-selected block of depth 3; formulas with an '
        'integer comparison under a past operator), translated by '
        'omega.logic.past.translate; on ALL traces of length 4 (thorough 5) '
        'over the valuations of the variables: exactly one valuation of the '
        'auxiliary variables satisfies init at position 0 and exactly one '
        'successor valuation satisfies trans at every step, and under it the '
        'translated formula equals the anchored past-LTL semantics at every '
        'position. With until=True: U [] <> formulas of depth <= 2 on ALL '
        'lassos with |stem|+|loop| <= 3: exactly one periodic valuation '
        'satisfies trans everywhere and every win condition infinitely '
        'often, and under it the translated formula has the future '
        'semantics; formulas of depth <= 2 that MIX past and future operators '
        '(~ -X --X -<> <> [] \\/ S U) on the same lassos with three passes of '
        'the loop unrolled. evaluations = (formula, trace) pairs; non-trivial = '
        'formula contains a past/future operator; distinct = formula')
ASSUMPTIONS = [
    'strings produced by omega (init, trans, translated formula) are parsed '
    'by the reference parser and compiled to Python; omega\'s parser is used '
    'only inside translate()']
CASE_TIMEOUT = 120
UN = ['~', '-X', '--X', '-[]', '-<>']
BIN = ['/\\', '\\/', '=>', '<=>', 'S']
CHUNK = 150


def _past_formulas(tier, seed):
    base = pl.formulas(['p', 'q'], 2, UN, BIN)
    # constants as operands (e.g. "~ --X TRUE" = "first position")
    withc = pl.formulas(['p', 'TRUE', 'FALSE'], 2, UN, ['/\\', 'S'])
    withc = [f for f in withc if _mentions_const(f)]
    return base + withc


def _mentions_const(t):
    if isinstance(t, str):
        return t in ('TRUE', 'FALSE')
    return any(_mentions_const(x) for x in t[1:])


def _extra_formulas(tier, seed):
    out = []
    # depth 3: unary operators over depth-2 formulas with a past operator,
    # a seed-selected residue class
    d2 = [f for f in pl.formulas(['p', 'q'], 2, UN, BIN)
          if not isinstance(f, str)]
    k = 7 if tier != 'thorough' else 1
    for i, f in enumerate(d2):
        if i % k != seed % k:
            continue
        for op in ('-X', '--X', '-<>', '-[]'):
            out.append((op, f))
        out.append(('S', f, 'p'))
        out.append(('S', 'q', f))
    return out


INT_FORMS = [
    ('-X', ('>', 'x', '1')), ('--X', ('=', 'x', '0')),
    ('S', 'p', ('<=', 'x', '1')), ('-<>', ('=', ('+', 'x', '1'), '3')),
    ('/\\', ('-X', ('<', 'x', '2')), ('--X', 'p')),
    ('-[]', ('\\/', 'p', ('#', 'x', '2'))),
    ('S', ('>', 'x', '0'), ('/\\', 'p', ('=', 'x', '2'))),
    ('=>', ('--X', ('>=', 'x', '1')), ('-X', ('-X', 'p'))),
]
FUT_UN = ['~', '[]', '<>']
FUT_BIN = ['/\\', '\\/', 'U']


def shards(tier, seed):
    out = []
    n = len(_past_formulas(tier, seed))
    for lo in range(0, n, CHUNK):
        out.append(dict(kind='past', lo=lo, hi=lo + CHUNK, tier=tier,
                        seed=seed))
    n = len(_extra_formulas(tier, seed))
    for lo in range(0, n, CHUNK):
        out.append(dict(kind='extra', lo=lo, hi=lo + CHUNK, tier=tier,
                        seed=seed))
    out.append(dict(kind='int', tier=tier, seed=seed))
    n = len(pl.formulas(['p', 'q'], 2, FUT_UN, FUT_BIN))
    for lo in range(0, n, CHUNK):
        out.append(dict(kind='until', lo=lo, hi=lo + CHUNK, tier=tier,
                        seed=seed))
    n = len(_mixed_formulas())
    for lo in range(0, n, 60):
        out.append(dict(kind='mixed', lo=lo, hi=lo + 60, tier=tier,
                        seed=seed))
    return out


MIX_UN = ['~', '-X', '--X', '-<>', '<>', '[]']
MIX_BIN = ['\\/', 'S', 'U']


def _mixed_formulas():
    """Past and future operators in one formula (translate(until=True))."""
    fs = pl.formulas(['p', 'q'], 2, MIX_UN, MIX_BIN)

    def kinds(t, acc):
        if isinstance(t, str):
            return acc
        if t[0] in ('-X', '--X', '-<>', 'S'):
            acc.add('past')
        if t[0] in ('<>', '[]', 'U'):
            acc.add('fut')
        for x in t[1:]:
            kinds(x, acc)
        return acc
    return [f for f in fs if kinds(f, set()) == {'past', 'fut'}]


def cases(shard):
    tier, seed = shard['tier'], shard['seed']
    L = 5 if tier == 'thorough' else 4
    if shard['kind'] == 'past':
        for f in _past_formulas(tier, seed)[shard['lo']:shard['hi']]:
            yield dict(kind='past', tree=f, length=L)
    elif shard['kind'] == 'extra':
        for f in _extra_formulas(tier, seed)[shard['lo']:shard['hi']]:
            yield dict(kind='past', tree=f, length=4)
    elif shard['kind'] == 'int':
        for f in INT_FORMS:
            yield dict(kind='past', tree=f, length=4, ints=True)
    elif shard['kind'] == 'mixed':
        for f in _mixed_formulas()[shard['lo']:shard['hi']]:
            yield dict(kind='mixed', tree=f)
    else:
        fs = pl.formulas(['p', 'q'], 2, FUT_UN, FUT_BIN)
        for f in fs[shard['lo']:shard['hi']]:
            yield dict(kind='until', tree=f)


def _tupled(t):
    if isinstance(t, list):
        return tuple(_tupled(x) for x in t)
    return t


def run_case(case, acc):
    tree = _tupled(case['tree'])
    if case['kind'] == 'until':
        return run_until(case, tree, acc)
    if case['kind'] == 'mixed':
        return run_mixed(case, tree, acc)
    run_past(case, tree, acc)


def _has_temporal(t):
    if isinstance(t, str):
        return False
    return t[0] in ('-X', '--X', '-[]', '-<>', 'S', 'U', '[]', '<>') or any(
        _has_temporal(x) for x in t[1:])


def run_past(case, tree, acc):
    import omega.logic.past as past
    s = fm.show(tree)
    dvars, r, init, trans, win = past.translate(s)
    aux = sorted(dvars)
    f_r = pl.compile_str(r)
    f_init = pl.compile_str(init) if init.strip() else (lambda e: True)
    f_trans = pl.compile_str(trans) if trans.strip() else (lambda e: True)
    if case.get('ints'):
        vals = [dict(p=p, q=q, x=x) for p in (False, True)
                for q in (False,) for x in (0, 1, 2)]
        vals += [dict(p=True, q=True, x=1)]
    else:
        vals = [dict(p=p, q=q) for p in (False, True) for q in (False, True)]
    auxvals = [dict(zip(aux, v))
               for v in itertools.product([False, True], repeat=len(aux))]
    # initial auxiliary valuations per first letter
    init_tab = {}
    for i, v in enumerate(vals):
        sols = []
        for a in auxvals:
            e = dict(v)
            e.update(a)
            if f_init(e):
                sols.append(a)
        init_tab[i] = sols
    # successor auxiliary valuations per (letter, aux, next letter)
    succ_tab = {}
    for (i, v), (j, w) in itertools.product(enumerate(vals), repeat=2):
        for ai, a in enumerate(auxvals):
            e = dict(v)
            e.update(a)
            e.update({k + "'": x for k, x in w.items()})
            sols = []
            for bi, b in enumerate(auxvals):
                e2 = dict(e)
                e2.update({k + "'": x for k, x in b.items()})
                if f_trans(e2):
                    sols.append(bi)
            succ_tab[i, ai, j] = sols
    aidx = {tuple(sorted(a.items())): i for i, a in enumerate(auxvals)}
    L = case['length']
    n = 0
    for word in itertools.product(range(len(vals)), repeat=L):
        n += 1
        trace = [vals[i] for i in word]
        sols = init_tab[word[0]]
        if len(sols) != 1:
            acc.ev(n=n)
            acc.violation('initial_condition_not_unique', case, detail=dict(
                formula=s, init=init, first=trace[0],
                n_solutions=len(sols)), n_solutions=len(sols))
            return
        ai = aidx[tuple(sorted(sols[0].items()))]
        memo = {}
        for pos in range(L):
            e = dict(trace[pos])
            e.update(auxvals[ai])
            got = f_r(e)
            exp = pl.sem(tree, trace, pos, memo)
            if got != exp:
                acc.ev(n=n)
                acc.violation('translated_formula_differs_from_past_semantics',
                              case, detail=dict(
                                  formula=s, translated=r, init=init,
                                  trans=' '.join(trans.split()), trace=trace,
                                  position=pos, translated_value=got,
                                  semantics=exp, testers=auxvals[ai]),
                              mixes_weak_and_strong_previous=_mixes(tree))
                return
            if pos + 1 < L:
                nx = succ_tab[word[pos], ai, word[pos + 1]]
                if len(nx) != 1:
                    acc.ev(n=n)
                    acc.violation('transition_relation_not_unique', case,
                                  detail=dict(formula=s, trans=trans,
                                              trace=trace, position=pos,
                                              n_solutions=len(nx)))
                    return
                ai = nx[0]
    acc.ev(dict(f=s), nontrivial=_has_temporal(tree), n=n)


def _mixes(t):
    """Signature of finding F5: -X v and --X v of the same variable v."""
    weak, strong = set(), set()

    def walk(x):
        if isinstance(x, str):
            return
        if x[0] in ('-X', '--X') and isinstance(x[1], str):
            (weak if x[0] == '-X' else strong).add(x[1])
        for y in x[1:]:
            walk(y)
    walk(t)
    return bool(weak & strong)


def run_until(case, tree, acc):
    import omega.logic.past as past
    s = fm.show(tree)
    dvars, r, init, trans, win = past.translate(s, until=True)
    aux = sorted(dvars)
    f_r = pl.compile_str(r)
    f_init = pl.compile_str(init) if init.strip() else (lambda e: True)
    f_trans = pl.compile_str(trans) if trans.strip() else (lambda e: True)
    f_win = [pl.compile_str(w) for w in win]
    vals = [dict(p=p, q=q) for p in (False, True) for q in (False, True)]
    auxvals = [dict(zip(aux, v))
               for v in itertools.product([False, True], repeat=len(aux))]
    n = 0
    for ls in (1, 2, 3):
        for nstem in range(0, ls):
            nloop = ls - nstem
            for word in itertools.product(range(4), repeat=ls):
                n += 1
                stem = [vals[i] for i in word[:nstem]]
                loop = [vals[i] for i in word[nstem:]]
                w = stem + loop

                def nxt(j):
                    return j + 1 if j + 1 < ls else nstem
                # periodic auxiliary valuations: one per position
                good = []
                for av in itertools.product(range(len(auxvals)), repeat=ls):
                    ok = True
                    for j in range(ls):
                        e = dict(w[j])
                        e.update(auxvals[av[j]])
                        k = nxt(j)
                        e.update({x + "'": y for x, y in w[k].items()})
                        e.update({x + "'": y
                                  for x, y in auxvals[av[k]].items()})
                        if not f_trans(e):
                            ok = False
                            break
                    if not ok:
                        continue
                    # every win condition holds somewhere in the loop
                    for fw in f_win:
                        if not any(fw(dict(w[j], **auxvals[av[j]]))
                                   for j in range(nstem, ls)):
                            ok = False
                            break
                    if ok:
                        e0 = dict(w[0])
                        e0.update(auxvals[av[0]])
                        if f_init(e0):
                            good.append(av)
                if len(good) != 1:
                    acc.ev(n=n)
                    acc.violation('prophecy_valuation_not_unique', case,
                                  detail=dict(formula=s, stem=stem, loop=loop,
                                              n_solutions=len(good),
                                              trans=' '.join(trans.split()),
                                              win=win))
                    return
                av = good[0]
                memo = {}
                for j in range(ls):
                    got = f_r(dict(w[j], **auxvals[av[j]]))
                    exp = pl.sem_lasso(tree, stem, loop, j, memo)
                    if got != exp:
                        acc.ev(n=n)
                        acc.violation(
                            'translated_formula_differs_from_future_semantics',
                            case, detail=dict(formula=s, translated=r,
                                              stem=stem, loop=loop,
                                              position=j))
                        return
    acc.ev(dict(f=s, u=1), nontrivial=_has_temporal(tree), n=n)


def _solutions(word, nstem, auxvals, f_init, f_trans, f_win, limit=3):
    """All periodic auxiliary valuations along the lasso `word` (loop starts
    at `nstem`): init at 0, trans at every step incl. the step back to the
    loop start, every win condition somewhere in the loop.  Depth-first with
    pruning; at most `limit` solutions are collected."""
    n = len(word)
    na = len(auxvals)
    # allowed[j][a] = list of b
    allowed = []
    for j in range(n):
        k = j + 1 if j + 1 < n else nstem
        row = []
        for a in range(na):
            e = dict(word[j])
            e.update(auxvals[a])
            e.update({x + "'": y for x, y in word[k].items()})
            ok = []
            for b in range(na):
                e2 = dict(e)
                e2.update({x + "'": y for x, y in auxvals[b].items()})
                if f_trans(e2):
                    ok.append(b)
            row.append(ok)
        allowed.append(row)
    sols = []

    def rec(j, seq):
        if len(sols) >= limit:
            return
        if j == n:
            if seq[nstem] not in allowed[n - 1][seq[n - 1]]:
                return
            for fw in f_win:
                if not any(fw(dict(word[i], **auxvals[seq[i]]))
                           for i in range(nstem, n)):
                    return
            sols.append(tuple(seq))
            return
        for b in (allowed[j - 1][seq[j - 1]] if j else range(na)):
            if j == 0:
                e0 = dict(word[0])
                e0.update(auxvals[b])
                if not f_init(e0):
                    continue
            rec(j + 1, seq + [b])
    rec(0, [])
    return sols


def sem_mixed(t, word, nstem, i, memo):
    """Past and future operators on the infinite word word[:nstem] .
    word[nstem:]^omega, at a position i of the representation; the stem is
    long enough for past subformulas to have become periodic."""
    key = (id(t), i)
    if key in memo:
        return memo[key]
    n = len(word)

    def reach(j):
        out = []
        while j not in out:
            out.append(j)
            j = j + 1 if j + 1 < n else nstem
        return out
    S = lambda x, j=i: sem_mixed(x, word, nstem, j, memo)  # noqa
    if isinstance(t, str):
        r = True if t == 'TRUE' else False if t == 'FALSE' else word[i][t]
    else:
        op = fm.CANON.get(t[0], t[0])
        if op == '~':
            r = not S(t[1])
        elif op == '/\\':
            r = S(t[1]) and S(t[2])
        elif op == '\\/':
            r = S(t[1]) or S(t[2])
        elif op == '=>':
            r = (not S(t[1])) or S(t[2])
        elif op == '<=>':
            r = S(t[1]) == S(t[2])
        elif op == '-X':
            r = True if i == 0 else S(t[1], i - 1)
        elif op == '--X':
            r = False if i == 0 else S(t[1], i - 1)
        elif op == '-<>':
            r = any(S(t[1], j) for j in range(i + 1))
        elif op == '-[]':
            r = all(S(t[1], j) for j in range(i + 1))
        elif op == 'S':
            r = any(S(t[2], j) and all(S(t[1], k)
                                       for k in range(j + 1, i + 1))
                    for j in range(i + 1))
        elif op == '[]':
            r = all(S(t[1], j) for j in reach(i))
        elif op == '<>':
            r = any(S(t[1], j) for j in reach(i))
        elif op == 'U':
            r = False
            for j in reach(i):
                if S(t[2], j):
                    r = True
                    break
                if not S(t[1], j):
                    break
        else:
            raise ValueError(op)
    memo[key] = r
    return r


def run_mixed(case, tree, acc):
    import omega.logic.past as past
    s = fm.show(tree)
    dvars, r, init, trans, win = past.translate(s, until=True)
    aux = sorted(dvars)
    f_r = pl.compile_str(r)
    f_init = pl.compile_str(init) if init.strip() else (lambda e: True)
    f_trans = pl.compile_str(trans) if trans.strip() else (lambda e: True)
    f_win = [pl.compile_str(w) for w in win]
    vals = [dict(p=p, q=q) for p in (False, True) for q in (False, True)]
    auxvals = [dict(zip(aux, v))
               for v in itertools.product([False, True], repeat=len(aux))]
    n = 0
    for ls in (1, 2, 3):
        for ns0 in range(0, ls):
            for w0 in itertools.product(range(4), repeat=ls):
                n += 1
                stem = [vals[i] for i in w0[:ns0]]
                loop = [vals[i] for i in w0[ns0:]]
                # unroll three passes of the loop into the stem so that the
                # past testers have become periodic
                word = stem + loop * 3 + loop
                nstem = len(stem) + 3 * len(loop)
                sols = _solutions(word, nstem, auxvals, f_init, f_trans,
                                  f_win)
                if len(sols) != 1:
                    acc.ev(n=n)
                    acc.violation('auxiliary_valuation_not_unique', case,
                                  detail=dict(formula=s, stem=stem, loop=loop,
                                              n_solutions=len(sols),
                                              init=init,
                                              trans=' '.join(trans.split()),
                                              win=win))
                    return
                memo = {}
                for j in range(len(word)):
                    got = f_r(dict(word[j], **auxvals[sols[0][j]]))
                    exp = sem_mixed(tree, word, nstem, j, memo)
                    if got != exp:
                        acc.ev(n=n)
                        acc.violation(
                            'translated_formula_differs_from_semantics',
                            case, detail=dict(formula=s, translated=r,
                                              stem=stem, loop=loop,
                                              position=j, semantics=exp))
                        return
    acc.ev(dict(f=s, m=1), nontrivial=True, n=n)
