"""C03 - realizability verdict and synthesized initial condition."""
from vlib import families as fam
from vlib import readout as ro
from vlib import synth
from vlib.runner import stable_hash

ID = 'C03'
LEVEL = 'exploration'
RULE = ('for every game of families A and B (Streett and Rabin, 4 modes): '
        'all admissible (qinit, EnvInit, SysInit) from the init menus '
        '(EnvInit over env variables for the disjoint-state forms; the '
        'region itself and conjunctions for \\A \\A); is_realizable vs. the '
        'four documented quantified formulas evaluated on explicit tables '
        'with the REFERENCE region, universally over rigid constants. For '
        'realizable combinations with non-empty region (quick: 1 per game, '
        'rotating; thorough: 8 per game) the transducer is constructed in a fresh '
        'automaton: must not raise; init[impl] must fix the memory, admit '
        'only states with (EnvInit => SysInit /\\ Win) (SysInit '
        'unconditionally if plus_one) and be non-empty in the quantifier '
        'pattern of the form. For one combination of every fourth game (thorough: 4 of every game) with a non-empty region but a negative verdict the construction must be refused (raise). non-trivial = some verdict of the game is '
        'true and some false; distinct = game description')
ASSUMPTIONS = ['dd trusted', 'reference region from arena/Zielonka',
               'library preconditions respected: SysInit=TRUE for \\A \\A, '
               'EnvInit=TRUE for \\E \\E']


def shards(tier, seed):
    out = []
    qt = 'quick'
    base = fam.a_shards(qt, seed, classes=('A1', 'A3')) + \
        fam.b_shards(tier, seed)
    if tier == 'thorough':
        base += fam.a_shards(qt, seed, classes=('A2',))
        base += fam.a_shards(qt, seed, backends=('autoref',),
                             classes=('A1',))
    for sh in base:
        for rabin in (False, True):
            s = dict(sh)
            s['rabin'] = rabin
            s['deep'] = tier == 'thorough'
            out.append(s)
    return out


def scope(tier, seed):
    return fam.scope_text('quick', seed)


def cases(shard):
    for c in fam.games(shard, rabin=shard['rabin']):
        c = dict(c)
        c['deep'] = shard['deep']
        yield c


def _tupled(t):
    if isinstance(t, (list, tuple)):
        return tuple(_tupled(x) for x in t)
    return t


def run_case(case, acc):
    rabin = bool(case['rabin'])
    # every other game is examined in an automaton with a history (solved
    # before under another ownership and in the opposite mode)
    reuse = bool(int(stable_hash({k: v for k, v in case.items()
                                  if k not in ('init', 'deep', 'refuse')})[:4],
                     16) % 2)
    sy = synth.Synth(case, reuse=reuse)
    aut, gm = sy.aut, sy.gm
    W = sy.reference_region()
    combos = synth.init_combos(case)
    verdicts = []
    realizable = []
    unrealizable = []
    for q, ei, si in combos:
        sy.set_init(q, ei, si)
        got = synth.is_realizable(sy.z, aut)
        ref = synth.reference_verdict(gm, q, gm.plus_one, sy.EI, sy.SI, W)
        verdicts.append(ref)
        if got != ref:
            acc.violation('verdict_mismatch', case, detail=dict(
                qinit=q, env_init=ei, sys_init=si, library=got,
                reference=ref, vars=gm.svars, W=sorted(W)),
                qinit=q)
        elif got and W:
            realizable.append((q, ei, si))
        elif not got and W:
            unrealizable.append((q, ei, si))
        # the same question in the same automaton with only the stepwise
        # form switched (same region, same initial predicates), and back
        if len(verdicts) % 2:
            continue    # every other combination
        p1 = bool(aut.plus_one)
        aut.plus_one = not p1
        try:
            got2 = synth.is_realizable(sy.z, aut)
        finally:
            aut.plus_one = p1
        ref2 = synth.reference_verdict(gm, q, not p1, sy.EI, sy.SI, W)
        if got2 != ref2:
            acc.violation('verdict_mismatch_after_switching_form', case,
                          detail=dict(qinit=q, env_init=ei, sys_init=si,
                                      plus_one=not p1, library=got2,
                                      reference=ref2, vars=gm.svars,
                                      W=sorted(W)), qinit=q)
    acc.ev(case, nontrivial=(True in verdicts and False in verdicts),
           n=len(combos))
    # refusal: with a non-empty winning region but a negative verdict the
    # construction must not hand out an implementation
    hh = int(stable_hash({k: v for k, v in case.items()
                          if k not in ('init', 'refuse')})[:8], 16)
    if case.get('refuse'):
        chosen = [tuple(_tupled(case['refuse']))]
    elif case.get('init') or not unrealizable or (
            not case.get('deep') and hh // 7 % 4):
        chosen = []      # quick: every fourth game
    else:
        k = len(unrealizable)
        chosen = [unrealizable[(hh + i * max(1, k // 4)) % k]
                  for i in range(min(4 if case.get('deep') else 1, k))]
    for q, ei, si in chosen:
        s2 = synth.Synth(case, q, ei, si, reuse=reuse)
        acc.count('refusals_checked')
        try:
            synth.make_transducer(s2.aut, s2.iterates, rabin)
        except Exception:  # noqa
            continue
        acc.violation('constructed_although_unrealizable',
                      dict(case, refuse=[q, ei, si]),
                      detail=dict(qinit=q, env_init=ei, sys_init=si,
                                  vars=gm.svars, W=sorted(W)), qinit=q)
    if not realizable or case.get('refuse'):
        return
    if case.get('init'):
        # replay of one recorded construction
        realizable = [tuple(case['init'])] if tuple(
            _tupled(case['init'])) in [tuple(_tupled(list(r)))
                                       for r in realizable] else realizable
    elif case.get('deep'):
        # thorough: up to 8 constructions per game, spread over the forms
        h = int(stable_hash({k: v for k, v in case.items()
                             if k != 'init'})[:8], 16)
        k = len(realizable)
        step = max(1, k // 8)
        realizable = [realizable[(h + i * step) % k]
                      for i in range(min(8, k))]
    elif not case.get('deep'):
        h = int(stable_hash({k: v for k, v in case.items()
                             if k != 'init'})[:8], 16)
        k = len(realizable)
        realizable = [realizable[h % k]]
    m0 = synth.memory_init(case, rabin)
    mem = synth.memory_vars(rabin)
    for q, ei, si in realizable:
        s2 = synth.Synth(case, q, ei, si, reuse=reuse)
        sub = dict(case, init=[q, ei, si])
        acc.count('constructions')
        try:
            synth.make_transducer(s2.aut, s2.iterates, rabin)
        except Exception as exc:  # noqa
            acc.violation('construction_raises_although_realizable', sub,
                          detail=repr(exc)[:300], qinit=q)
            continue
        g2 = s2.gm
        frd = ro.Reader(s2.aut, g2.svars + mem)
        Itab = frd.table(s2.aut.init['impl'])
        EI, SI = s2.EI, s2.SI
        nsv = len(g2.svars)
        bad = None
        for s in Itab:
            sp = s[:nsv]
            if s[nsv:] != m0:
                bad = ('memory_not_initial', s)
            elif sp in EI and sp not in W:
                bad = ('admits_losing_state_in_EnvInit', s)
            elif sp not in SI and (g2.plus_one or sp in EI):
                bad = ('admits_state_violating_SysInit', s)
            if bad:
                break
        if bad:
            acc.violation('init_' + bad[0], sub, detail=dict(
                vars=g2.svars + mem, state=bad[1], W=sorted(W)), qinit=q)
            continue
        Iset = {s[:nsv] for s in Itab}
        ne, ns = g2.ne, g2.ns
        consts = sorted({s[ne + ns:] for s in g2.states})
        ok = True
        for c in consts:
            def envok(x):
                return any((x + y + c) in EI for y in g2.ys)
            if q == r'\A \A':
                ok = all((x + y + c) in Iset for x in g2.xs for y in g2.ys
                         if (x + y + c) in EI)
            elif q == r'\E \E':
                ok = any((x + y + c) in Iset for x in g2.xs for y in g2.ys)
            elif q == r'\A \E':
                ok = all(any((x + y + c) in Iset for y in g2.ys)
                         for x in g2.xs if envok(x))
            else:
                ok = any(all((x + y + c) in Iset for x in g2.xs if envok(x))
                         for y in g2.ys)
            if not ok:
                break
        if not ok:
            acc.violation('init_empty_in_quantifier_pattern', sub,
                          detail=dict(vars=g2.svars, admitted=sorted(Iset),
                                      EnvInit=sorted(EI)), qinit=q)
