"""C14 - functional synthesis picks, for every solvable input, an output in
the relation; care sets contain the inputs where the value is forced."""
import itertools

ID = 'C14'
LEVEL = 'exploration'
RULE = ('ALL 65536 relations over input bits {a, b} and output bits {p, q}, '
        'each with requested outputs {p}, {q}, {p,q} and {p,q,r} (r ignored '
        'by the relation), under two namings of the outputs (so that both '
        'extraction orders occur) and with / without the CUDD restrict path, on a CUDD manager and (a quarter in quick, all in thorough) on a dd.autoref manager; '
        'plus all 256x... relations over one input and three outputs '
        '(thorough: all 65536; quick: a seed-rotated quarter) and structured '
        'relations over 8-10 bits from integer formulas. For every input with '
        'some admissible output the extracted functions\' values (any value '
        'for ignored outputs) must satisfy the relation; supports contain no '
        'requested output; every input where an output is forced, given the '
        'outputs extracted before it, lies in the reported care set and the '
        'function takes the forced value. non-trivial = relation is not '
        'functional in some requested output; distinct = (relation, request, '
        'naming, restrict path)')
ASSUMPTIONS = ['dd trusted', 'extraction order is the order of the returned '
               'dict; "care set contains the forced inputs" is checked, not '
               'equality (the cofactor optimisation enlarges it on purpose)']
CASE_TIMEOUT = 60
def _namings():
    """Output names whose set-iteration orders differ (under the fixed
    PYTHONHASHSEED), so that both extraction orders of make_functions occur."""
    out = [dict(a='a', b='b', p='p', q='q', r='r')]
    first = list({'p', 'q'})[0]
    cands = ['u%d' % i for i in range(40)]
    # a pair iterating in the opposite role order
    for n1, n2 in itertools.combinations(cands, 2):
        it = list({n1, n2})
        # role p = n1, role q = n2; want the q role first if 'p' was first
        if (it[0] == n2) == (first == 'p'):
            out.append(dict(a='a', b='b', p=n1, q=n2, r='w9'))
            break
    out.append(dict(a='in1', b='in0', p='o2', q='o10', r='o3'))
    return out


NAMINGS = _namings()


def shards(tier, seed):
    out = []
    step = 1024
    for lo in range(0, 65536, step):
        for nm in range(len(NAMINGS)):
            if tier != 'thorough' and nm == 2 and (lo // step + seed) % 4:
                continue
            out.append(dict(kind='ab_pq', lo=lo, hi=lo + step, naming=nm))
            if nm == 0 and (tier == 'thorough' or
                            (lo // step + seed) % 4 == 1):
                out.append(dict(kind='ab_pq', lo=lo, hi=lo + step, naming=nm,
                                backend='autoref'))
    for lo in range(0, 65536, step):
        if tier != 'thorough' and (lo // step + seed) % 4:
            continue
        out.append(dict(kind='a_pqr', lo=lo, hi=lo + step, naming=0))
    out.append(dict(kind='structured'))
    return out


def cases(shard):
    if shard['kind'] == 'structured':
        for i, (decl, formula, outs) in enumerate(STRUCTURED):
            for restrict in (True, False):
                yield dict(kind='structured', idx=i, restrict=restrict)
        return
    for tt in range(shard['lo'], shard['hi']):
        yield dict(kind=shard['kind'], tt=tt, naming=shard['naming'],
                   backend=shard.get('backend', 'cudd'))


STRUCTURED = [
    (dict(x=(0, 6), y=(0, 6)), "y' = x", ["y'"]),
    (dict(x=(0, 6), y=(0, 6)), "y' <= x", ["y'"]),
    (dict(x=(0, 6), y=(0, 6)), "y' = x + 1", ["y'"]),
    (dict(x=(0, 6), y=(0, 6)), "(y' > x) \\/ (y' = 0 /\\ x = 7)", ["y'"]),
    (dict(x=(-3, 2), y=(-3, 2)), "(y' = 0 - x) \\/ (y' = x)", ["y'"]),
    (dict(x=(0, 2), y=(0, 2), z=(0, 2)), "y' + z' = x", ["y'", "z'"]),
    (dict(x=(0, 2), y=(0, 2), z=(0, 2)), "(y' # z') /\\ (y' >= x)",
     ["y'", "z'"]),
    (dict(x=(0, 2), y=(0, 2), z=(0, 2)), "y' = x", ["y'", "z'"]),
    (dict(x=(0, 6), y=(0, 6)), "(x < 3) => (y' = x * 2)", ["y'"]),
    (dict(x=(0, 6), y=(0, 6)), "y' = x /\\ x <= 5", ["y'", "x'"]),
]


def _table(bdd, u, bits):
    """Set of tuples (ordered as `bits`) where `u` holds."""
    supp = bdd.support(u)
    assert supp <= set(bits), (supp, bits)
    return {tuple(m[b] for b in bits)
            for m in bdd.pick_iter(u, care_vars=set(bits))}


def _set_restrict(on):
    import omega.symbolic.functions as fcn
    if not hasattr(_set_restrict, 'orig'):
        _set_restrict.orig = fcn._bdd
    fcn._bdd = _set_restrict.orig if on else None
    return (fcn._bdd is not None) == on or not on


def run_case(case, acc):
    import dd.cudd
    if case['kind'] == 'structured':
        return run_structured(case, acc)
    nm = NAMINGS[case['naming']]
    tt = case['tt']
    if case['kind'] == 'ab_pq':
        ins, outs, extra = [nm['a'], nm['b']], [nm['p'], nm['q']], [nm['r']]
        requests = [[outs[0]], [outs[1]], outs, outs + extra]
    else:
        ins, outs, extra = [nm['a']], [nm['p'], nm['q'], nm['r']], []
        requests = [outs, outs[:2], [outs[2], outs[0]]]
    bits = ins + outs
    for restrict in (True, False):
        if not _set_restrict(restrict):
            acc.count('skipped_restrict_seam')
            continue
        try:
            for req in requests:
                if case.get('backend') == 'autoref':
                    import dd.autoref
                    bdd = dd.autoref.BDD()
                else:
                    bdd = dd.cudd.BDD(memory_estimate=2**26,
                                      initial_cache_size=2**8)
                bdd.declare(*(bits + extra))
                rows = [r for i, r in enumerate(itertools.product(
                    [False, True], repeat=len(bits))) if tt >> i & 1]
                r = bdd.false
                for row in rows:
                    r |= bdd.cube(dict(zip(bits, row)))
                sub = dict(case, request=req, restrict=restrict)
                check(bdd, r, set(rows), bits, req, sub, acc)
        finally:
            _set_restrict(True)


def run_structured(case, acc):
    import omega.symbolic.temporal as trl
    from vlib import readout as ro
    decl, formula, outs = STRUCTURED[case['idx']]
    if not _set_restrict(case['restrict']):
        acc.count('skipped_restrict_seam')
        return
    try:
        aut = trl.Automaton()
        aut.declare_variables(**decl)
        u = aut.add_expr(formula)
        req = [b for v in outs for b in ro.bits_of(aut, v)]
        bits = sorted(aut.bdd.support(u) | set(req))
        rows = _table(aut.bdd, u, bits)
        check(aut.bdd, u, rows, bits, req, dict(case, formula=formula), acc)
    finally:
        _set_restrict(True)


def check(bdd, r, R, bits, req, case, acc):
    """`R`: table of relation `r` over `bits`; `req`: requested outputs."""
    import omega.symbolic.functions as fcn
    if (len(bits) + len(req)) % 2:
        fs = fcn.make_functions(r, list(req), bdd)
    else:
        # the caller's own collection (any iterable of names is accepted),
        # used for two calls: the second answer is the one judged
        mine = set(req)
        fcn.make_functions(r, mine, bdd)
        fs = fcn.make_functions(r, mine, bdd)
    order = list(fs)
    inputs = [b for b in bits if b not in req]
    idx = {b: i for i, b in enumerate(bits)}
    V = [b for b in bits if b in req]
    nonfunctional = False
    # supports
    for y, d in fs.items():
        s = bdd.support(d['function'])
        if s & set(req):
            acc.ev()
            acc.violation('function_depends_on_output', case, detail=dict(
                output=y, support=sorted(s)))
            return
        if not s <= set(inputs):
            acc.ev()
            acc.violation('function_depends_on_undeclared_input', case,
                          detail=dict(output=y, support=sorted(s)))
            return
    ftab = {y: _table(bdd, d['function'], inputs) for y, d in fs.items()}
    ctab = {y: _table(bdd, d['care_set'], inputs) for y, d in fs.items()}
    ignored = [b for b in V if b not in fs]
    for x in itertools.product([False, True], repeat=len(inputs)):
        xin = dict(zip(inputs, x))
        # admissible outputs at x
        adm = [o for o in itertools.product([False, True], repeat=len(V))
               if _row(bits, idx, xin, dict(zip(V, o))) in R]
        if not adm:
            continue
        if len({tuple(o[V.index(y)] for y in order) for o in adm}) > 1:
            nonfunctional = True
        chosen = {y: (x in ftab[y]) for y in order}
        for ign in itertools.product([False, True], repeat=len(ignored)):
            o = dict(chosen)
            o.update(zip(ignored, ign))
            if _row(bits, idx, xin, o) not in R:
                acc.ev()
                acc.violation('chosen_output_not_in_relation', case,
                              detail=dict(inputs=xin, outputs=o,
                                          order=order))
                return
        # care sets: forced values given earlier choices
        fixed = {}
        for y in order:
            can = {v for o in adm
                   if all(o[V.index(k)] == fixed[k] for k in fixed)
                   for v in [o[V.index(y)]]}
            if len(can) == 1:
                (v,) = can
                if x not in ctab[y]:
                    acc.ev()
                    acc.violation('forced_input_missing_from_care_set',
                                  case, detail=dict(output=y, inputs=xin,
                                                    forced=v, order=order))
                    return
                if chosen[y] != v:
                    acc.ev()
                    acc.violation('function_differs_from_forced_value',
                                  case, detail=dict(output=y, inputs=xin))
                    return
            fixed[y] = chosen[y]
    acc.ev(dict(c=case), nontrivial=nonfunctional)
    acc.count('order:' + ','.join(order))


def _row(bits, idx, xin, outs):
    row = [None] * len(bits)
    for b, v in xin.items():
        row[idx[b]] = v
    for b, v in outs.items():
        if b in idx:
            row[idx[b]] = v
    return tuple(row)
