"""C18 - priming, renaming and type-hint predicates are exact."""
import itertools

from vlib import readout as ro

ID = 'C18'
LEVEL = 'exploration'
RULE = ('(a) ALL type hints (lo, hi) with -9 <= lo <= hi <= 9 (thorough: -17..17) plus a sparse '
        'set up to +-40: representable values found by asking "x = v" for '
        'every v of a window; every hinted value representable; reported '
        'bitfield limits = least/greatest representable; type_hint_for, '
        'type_action_for, _conjoin_type_hints, bitvector.type_invariants '
        'exact on the hinted range; implies_type_hints on a predicate menu '
        'and all unions of <= 2 points. (b) automata with one variable per '
        'sign class, a Boolean and a rigid constant; 20-formula menu: '
        'unprime(prime(u)) = u, table(prime(u)) = renamed table, '
        'replace_with_primed/unprimed for EVERY subset of variables (for actions too, where the copy substituted in is already read, and unprime of proper actions), support '
        'classification (every helper of prime.py) vs. semantic dependence; an identifier declared first as a constant and later as a variable, with and without queries in between. non-trivial = hint does not '
        'fill its bitfield / predicate depends on a flexible variable; '
        'distinct = hint / (automaton, predicate, back end)')
ASSUMPTIONS = ['dd trusted', 'read-out decodes bits independently']
CASE_TIMEOUT = 60


def hints(tier):
    w = 17 if tier == 'thorough' else 9
    out = [(lo, hi) for lo in range(-w, w + 1) for hi in range(lo, w + 1)]
    sparse = [(0, 10), (0, 15), (0, 16), (0, 31), (0, 32), (0, 40),
              (-10, 10), (-16, 15), (-17, 15), (-16, 16), (-32, 31),
              (-40, 40), (-40, -1), (-33, -32), (-32, -17), (-16, -16),
              (12, 13), (16, 16), (31, 40), (-11, 3), (-2, 37), (-40, 0)]
    return out + sparse


def shards(tier, seed):
    hs = hints(tier)
    out = [dict(kind='hints', items=hs[i:i + 8])
           for i in range(0, len(hs), 8)]
    for be in ('cudd', 'autoref'):
        for name in PRIME_DECLS:
            for i in range(0, len(PMENU[name]), 4):
                out.append(dict(kind='prime', decl=name, backend=be,
                                start=i))
        out.append(dict(kind='staged', backend=be))
    return out


def cases(shard):
    if shard['kind'] == 'staged':
        for hint in ('bool', [0, 2], [-3, 2], [-3, -1]):
            for pre_query in (True, False):
                yield dict(kind='staged', backend=shard['backend'],
                           hint=hint, pre_query=pre_query)
        return
    if shard['kind'] == 'hints':
        for h in shard['items']:
            yield dict(kind='hint', hint=list(h))
    else:
        for e in PMENU[shard['decl']][shard['start']:shard['start'] + 4]:
            yield dict(kind='prime', decl=shard['decl'],
                       backend=shard['backend'], pred=e)


def run_staged(case, acc):
    """An identifier first declared as a constant, later as a variable
    (same hint): classification and priming must follow the declarations
    in force, whatever was asked before."""
    import omega.symbolic.temporal as trl
    import omega.symbolic.prime as prm
    aut = trl.Automaton()
    if case['backend'] == 'autoref':
        import dd.autoref
        aut.bdd = dd.autoref.BDD()
    h = case['hint'] if case['hint'] == 'bool' else tuple(case['hint'])
    aut.declare_variables(y=(0, 2))
    aut.declare_constants(n=h)
    f = 'n /\\ (y = 1)' if h == 'bool' else f'(n = {h[0]}) /\\ (y = 1)'
    u = aut.add_expr(f)
    n = 0

    def bad(kind, **detail):
        acc.violation(kind, case, detail=detail)
    if case['pre_query']:
        n += 3
        if prm.rigid_support(u, aut) != {'n'} or \
                prm.flexible_support(u, aut) != {'y'}:
            bad('support_classification_wrong', stage='constant')
        pu = prm.prime(u, aut)
        if aut.support(pu) != {'n', "y'"}:
            bad('prime_table_wrong', stage='constant',
                support=sorted(aut.support(pu)))
    # now the same identifier becomes a flexible variable
    aut.declare_variables(n=h)
    n += 5
    if prm.rigid_support(u, aut) != set() or \
            prm.flexible_support(u, aut) != {'n', 'y'}:
        bad('support_classification_wrong', stage='after redeclaration',
            rigid=sorted(prm.rigid_support(u, aut)),
            flexible=sorted(prm.flexible_support(u, aut)))
    if prm.vars_in_support(u, aut) != {'n', 'y'}:
        bad('vars_in_support_wrong', stage='after redeclaration')
    pu = prm.prime(u, aut)
    if aut.support(pu) != {"n'", "y'"}:
        bad('prime_table_wrong', stage='after redeclaration',
            support=sorted(aut.support(pu)))
    else:
        t0 = ro.Reader(aut, ['n', 'y']).table(u)
        t1 = ro.Reader(aut, ["n'", "y'"]).table(pu)
        if t0 != t1:
            bad('prime_table_wrong', stage='after redeclaration')
        if prm.unprime(pu, aut) != u:
            bad('unprime_of_prime_differs', stage='after redeclaration')
        if not prm.is_primed_state_predicate(pu, aut):
            bad('is_primed_state_predicate_wrong',
                stage='after redeclaration')
    acc.ev(dict(c=case), nontrivial=True, n=n)


def run_case(case, acc):
    if case['kind'] == 'staged':
        return run_staged(case, acc)
    if case['kind'] == 'hint':
        run_hint(case, acc)
    else:
        run_prime(case, acc)


# ------------------------------------------------------------------ hints

def run_hint(case, acc):
    import omega.symbolic.temporal as trl
    import omega.symbolic._type_hints as tyh
    import omega.logic.bitvector as bv
    lo, hi = case['hint']
    aut = trl.Automaton()
    aut.declare_variables(x=(lo, hi), k=(0, 3))
    aut.declare_constants(c=(lo, hi))
    n = 0

    def bad(kind, **detail):
        acc.violation(kind, case, detail=detail)
    # representable values, by asking the translator
    window = range(-140, 141)
    R = []
    rd = ro.Reader(aut, ['x'])
    for v in window:
        u = aut.add_expr(f'x = {v}')
        n += 1
        if u != aut.false:
            R.append(v)
            t = rd.table(u)
            if t != {(v,)}:
                bad('value_decodes_differently', value=v, table=sorted(t))
                break
    missing = [v for v in range(lo, hi + 1) if v not in R]
    if missing:
        bad('hinted_value_not_representable', values=missing)
    if R != list(range(R[0], R[-1] + 1)):
        bad('representable_values_not_an_interval', R=R)
    if R != ro.rep_range((lo, hi)):
        bad('representable_range_unexpected', R=[R[0], R[-1]],
            expected=[ro.rep_range((lo, hi))[0], ro.rep_range((lo, hi))[-1]])
    lim = tyh._bitfield_limits(aut.vars['x'])
    n += 1
    if tuple(lim) != (R[0], R[-1]):
        bad('bitfield_limits_wrong', reported=list(lim),
            least_greatest_representable=[R[0], R[-1]])
    H = {(v,) for v in range(lo, hi + 1)}
    # type hint formulas
    s = aut.type_hint_for(['x'])
    t = rd.table(aut.add_expr(s))
    n += 1
    if t != H:
        bad('type_hint_for_inexact', formula=s, table=sorted(t))
    s = aut.type_hint_for(["x'", 'k'])
    rd2 = ro.Reader(aut, ["x'", 'k'])
    t = rd2.table(aut.add_expr(s))
    exp = {(v, w) for v in range(lo, hi + 1) for w in range(0, 4)}
    n += 1
    if t != exp:
        bad('type_hint_for_primed_inexact', formula=s)
    s = aut.type_action_for(['x'])
    rd3 = ro.Reader(aut, ['x', "x'"])
    t = rd3.table(aut.add_expr(s))
    exp = {(v, w) for v in range(lo, hi + 1) for w in range(lo, hi + 1)}
    n += 1
    if t != exp:
        bad('type_action_for_inexact', formula=s)
    u = tyh._conjoin_type_hints(['x'], aut)
    n += 1
    if rd.table(u) != H:
        bad('conjoin_type_hints_inexact', table=sorted(rd.table(u)))
    u = tyh._conjoin_type_hints(['x', 'c'], aut)
    rdc = ro.Reader(aut, ['x', 'c'])
    exp = {(v, w) for v in range(lo, hi + 1) for w in range(lo, hi + 1)}
    n += 1
    if rdc.table(u) != exp:
        bad('conjoin_type_hints_with_constant_inexact')
    init, safety = bv.type_invariants(
        {k: v for k, v in aut.vars.items() if k == 'x'})
    n += 1
    if init['x']:
        t = rd.table(aut.add_expr(' /\\ '.join(
            f'({f})' for f in init['x'])))
        if t != H:
            bad('type_invariants_init_inexact', formulas=init['x'])
        t = rd3.table(aut.add_expr(' /\\ '.join(
            f'({f})' for f in safety['x'])))
        if t != {(v, w) for v in range(lo, hi + 1)
                 for w in range(lo, hi + 1)}:
            bad('type_invariants_safety_inexact', formulas=safety['x'])
    else:
        bad('type_invariants_missing')
    # implies_type_hints
    pts = sorted({R[0], R[-1], lo, hi, (lo + hi) // 2,
                  max(R[0], lo - 1), min(R[-1], hi + 1)})
    preds = []
    for k in (1, 2):
        for comb in itertools.combinations(pts, k):
            preds.append(set(comb))
    preds += [set(), set(R), set(range(lo, hi + 1))]
    for P in preds:
        u = rd.from_rows([(v,) for v in P])
        got = aut.implies_type_hints(u, vrs=['x'])
        exp = all(lo <= v <= hi for v in P)
        n += 1
        if got != exp:
            bad('implies_type_hints_wrong', predicate=sorted(P), got=got)
            break
        got = aut.implies_type_hints(u)   # all variables: k and c unconstrained
        n += 1
        exp_all = (not P)   # k ranges over 0..3 = its hint; c free over bitfield
        # c is unconstrained by u, so u => hints(c) only if c's hint fills
        # its bitfield or u is empty; k:(0,3) fills its field
        c_full = (R[0], R[-1]) == (lo, hi)
        exp_all = (not P) or (exp and c_full)
        if got != exp_all:
            bad('implies_type_hints_all_vars_wrong', predicate=sorted(P),
                got=got, expected=exp_all)
            break
    acc.ev(dict(h=case['hint']), nontrivial=(R[0], R[-1]) != (lo, hi), n=n)


# ----------------------------------------------------------------- priming

PRIME_DECLS = {
    'P1': dict(vars=[('p', 'bool'), ('x', (0, 2)), ('y', (-2, 1)),
                     ('z', (-3, -1))], consts=[('c', (0, 2)), ('d', 'bool')],
               twins=[('p2', 'bool'), ('x2', (0, 2)), ('z2', (-3, -1))],
               renamings=[{'x': 'x2'}, {'p': 'p2'}, {'x': 'x2', 'p': 'p2'},
                          {'z': 'z2', 'x': 'x2'}]),
    'P2': dict(vars=[('q', 'bool'), ('x', (1, 5)), ('y', (-1, 1))],
               consts=[('c', (-2, -1))],
               twins=[('q2', 'bool'), ('y2', (-1, 1))],
               renamings=[{'y': 'y2'}, {'q': 'q2'}, {'q': 'q2', 'y': 'y2'}]),
}
PMENU = {
    'P1': ["TRUE", "FALSE", "p", "x = 1", "y < 0", "z = -1", "c = 2", "d",
           "p /\\ (x = y + 1)", "x = c", "(y + z = -3) \\/ d",
           "(x > y) /\\ (z < y)", "x <= c /\\ ~ p", "d => (z = -4)",
           "x' = x", "y' = y + 1 /\\ p'", "x' = c", "p' <=> d",
           "z' < z \\/ x' > x", "x' + y' = 1", "p' /\\ x' = 3",
           "(x < x') /\\ (y' = 1)", "(p <=> ~ p') /\\ (z' = z - 1)",
           "(x' = y) /\\ (y' = x - 2)",
           "(c = 1) /\\ d", "x = 3 \\/ y = -3"],
    'P2': ["q", "x = 7", "y = -2", "c = -1", "x + y = c + 3",
           "q => (x > y + c)", "x' = x + 1", "q' <=> ~ q", "y' = c",
           "x' > y'", "c = -2 /\\ x' = 0", "q /\\ q'",
           "(x' > x) /\\ (y' < y)", "x' = x + y"],
}


def subsets(names):
    for k in range(len(names) + 1):
        for c in itertools.combinations(names, k):
            yield list(c)


def run_prime(case, acc):
    import omega.symbolic.temporal as trl
    import omega.symbolic.prime as prm
    d = PRIME_DECLS[case['decl']]
    aut = trl.Automaton()
    if case['backend'] == 'autoref':
        import dd.autoref
        aut.bdd = dd.autoref.BDD()
    aut.declare_variables(**dict(d['vars'] + d['twins']))
    aut.declare_constants(**dict(d['consts']))
    flex = [v for v, _ in d['vars']]
    rigid = [v for v, _ in d['consts']]
    primed = [v + "'" for v in flex]
    allv = flex + primed + rigid
    u = aut.add_expr(case['pred'])
    n = 0

    def bad(kind, **detail):
        acc.violation(kind, case, detail=detail)
    # semantic dependence over the variables in the bit-level support
    supp_bits = aut.bdd.support(u)
    bitowner = {}
    for v in allv:
        for b in ro.bits_of(aut, v):
            bitowner[b] = v
    names = sorted({bitowner[b] for b in supp_bits})
    rd = ro.Reader(aut, names)
    T = rd.table(u)
    space = rd.space()
    dep = set()
    for i, v in enumerate(names):
        rng = ro.var_range(aut, v)
        for r in space:
            if any(((r[:i] + (a,) + r[i + 1:]) in T) != (r in T)
                   for a in rng):
                dep.add(v)
                break
    sem = dict(
        rigid={v for v in dep if v in rigid},
        flexible={v for v in dep if v in flex},
        primed={v for v in dep if v in primed},
        unprimed={v for v in dep if v not in primed})
    got = dict(
        rigid=prm.rigid_support(u, aut), flexible=prm.flexible_support(u, aut),
        primed=prm.primed_support(u, aut),
        unprimed=prm.unprimed_support(u, aut))
    n += 4
    for k in sem:
        if set(got[k]) != sem[k]:
            bad('support_classification_wrong', which=k,
                got=sorted(got[k]), expected=sorted(sem[k]))
    # the remaining classification helpers
    n += 4
    un, pr = prm.split_support(u, aut)
    if set(un) != sem['unprimed'] or set(pr) != sem['primed']:
        bad('split_support_wrong', unprimed=sorted(un), primed=sorted(pr),
            expected=[sorted(sem['unprimed']), sorted(sem['primed'])])
    for v in flex + rigid:
        if prm.is_variable(v, aut) != (v in flex) or \
                prm.is_constant(v, aut) != (v in rigid):
            bad('is_variable_or_is_constant_wrong', identifier=v,
                is_variable=prm.is_variable(v, aut),
                is_constant=prm.is_constant(v, aut))
            break
    other = aut.add_expr(d['vars'][1][0] + " = " + d['vars'][1][0])  # TRUE
    w = aut.add_expr(PMENU[case['decl']][3])
    js = prm.joint_support([u, w, other], aut)
    if set(js) != dep | {v for v in aut.support(w)}:
        bad('joint_support_wrong', got=sorted(js))
    for vs in (dep, dep - set(list(dep)[:1]), dep | {'nosuch'}):
        if prm.support_issubset(u, set(vs), aut) != (dep <= set(vs)):
            bad('support_issubset_wrong', vars=sorted(vs))
            break
    sets_ = [set(sem['rigid']), set(sem['flexible']), set(sem['primed'])]
    if not prm.pairwise_disjoint(iter(sets_)) or (
            dep and prm.pairwise_disjoint([dep, set(list(dep)[:1])])):
        bad('pairwise_disjoint_wrong', sets=[sorted(x) for x in sets_])
    # an action constrains a player iff its primed support lies within
    # that player's variables
    aut.varlist.update(env=flex[:1], sys=flex[1:])
    for player in ('env', 'sys'):
        exp_p = {v.rstrip("'") for v in sem['primed']} <= set(
            aut.varlist[player])
        if prm.is_action_of_player(u, player, aut) != exp_p:
            bad('is_action_of_player_wrong', player=player,
                got=prm.is_action_of_player(u, player, aut))
    n += 1
    exp = {v.rstrip("'") for v in dep if v in flex or v in primed}
    if set(prm.vars_in_support(u, aut)) != exp:
        bad('vars_in_support_wrong', got=sorted(prm.vars_in_support(u, aut)),
            expected=sorted(exp))
    n += 2
    if prm.is_state_predicate(u) != (not sem['primed']):
        bad('is_state_predicate_wrong', got=prm.is_state_predicate(u))
    if prm.is_proper_action(u) != (bool(sem['primed']) and
                                   bool(sem['unprimed'])):
        bad('is_proper_action_wrong', got=prm.is_proper_action(u))
    is_state = not sem['primed']
    full_names = flex + primed + rigid
    frd = None
    if is_state:
        # prime / unprime round trip and exact renamed table
        pu = prm.prime(u, aut)
        n += 2
        if prm.unprime(pu, aut) != u:
            bad('unprime_of_prime_differs')
        pnames = [v + "'" if v in flex else v for v in names]
        t = ro.Reader(aut, pnames).table(pu)
        if t != T:
            bad('prime_table_wrong', vars=pnames,
                got=sorted(t, key=repr)[:5], expected=sorted(T, key=repr)[:5])
        # replace_with_primed for every subset of flexible variables
        for S in subsets(flex):
            n += 2
            r = aut.replace_with_primed(S, u) if S else u
            rn = [v + "'" if v in S else v for v in names]
            t = ro.Reader(aut, rn).table(r)
            if t != T:
                bad('replace_with_primed_wrong', subset=S)
                break
            back = aut.replace_with_unprimed(S, r) if S else r
            if back != u:
                bad('replace_with_unprimed_not_inverse', subset=S)
                break
    else:
        # unprime of a predicate over primed variables only
        if not sem['flexible']:
            n += 1
            uu = prm.unprime(u, aut)
            un = [v.rstrip("'") for v in names]
            t = ro.Reader(aut, un).table(uu)
            if t != T:
                bad('unprime_table_wrong', vars=un)
            n += 1
            if prm.prime(uu, aut) != u:
                bad('prime_of_unprime_differs')
        # an action: substituting primed copies for variables (or back)
        # where the predicate ALREADY reads the copy substituted in - the
        # result's value at an assignment is the original's at the
        # assignment with the replaced identifier reading its copy
        pflex = sorted({v.rstrip("'") for v in names
                        if v in flex or v in primed})
        for S in subsets(pflex):
            if not S:
                continue
            for to_primed in (True, False):
                n += 1
                both = sorted(set(names) | set(S) | {v + "'" for v in S})
                if len(both) > 7:
                    continue
                brd = ro.Reader(aut, both)
                TB = brd.table(u)
                ix = {v: i for i, v in enumerate(both)}
                exp_rows = set()
                for row in brd.space():
                    r2 = list(row)
                    for v in S:
                        if to_primed:
                            r2[ix[v]] = row[ix[v + "'"]]
                        else:
                            r2[ix[v + "'"]] = row[ix[v]]
                    if tuple(r2) in TB:
                        exp_rows.add(row)
                r = (aut.replace_with_primed(S, u) if to_primed
                     else aut.replace_with_unprimed(S, u))
                if brd.table(r) != exp_rows:
                    bad('replace_in_action_wrong', subset=S,
                        to_primed=to_primed, vars=both)
                    break
        if sem['flexible']:
            # unprime of a proper action: every primed variable in the
            # support reads its unprimed copy
            n += 1
            both = sorted(set(names) | {v.rstrip("'") for v in names})
            if len(both) <= 7:
                brd = ro.Reader(aut, both)
                TB = brd.table(u)
                ix = {v: i for i, v in enumerate(both)}
                exp_rows = set()
                for row in brd.space():
                    r2 = list(row)
                    for v in names:
                        if v in primed:
                            r2[ix[v]] = row[ix[v.rstrip("'")]]
                    if tuple(r2) in TB:
                        exp_rows.add(row)
                if brd.table(prm.unprime(u, aut)) != exp_rows:
                    bad('unprime_of_action_wrong', vars=both)
        n += 1
        if prm.is_primed_state_predicate(u, aut) != (not sem['flexible']):
            bad('is_primed_state_predicate_wrong',
                got=prm.is_primed_state_predicate(u, aut))
    # rename_variables: unprimed and primed occurrences together
    for ren in d['renamings']:
        n += 1
        full = dict(ren)
        full.update({k + "'": v + "'" for k, v in ren.items()})
        rn = [full.get(v, v) for v in names]
        try:
            r = prm.rename_variables(dict(ren), u, aut)
        except Exception as exc:  # noqa
            bad('rename_variables_raises', renaming=ren, exc=repr(exc)[:200])
            continue
        supp_r = {bitowner_all(aut, b) for b in aut.bdd.support(r)}
        if not supp_r <= set(rn):
            bad('rename_variables_wrong_support', renaming=ren,
                support=sorted(supp_r), expected_within=rn)
            continue
        t = ro.Reader(aut, rn).table(r)
        if t != T:
            bad('rename_variables_wrong', renaming=ren, vars=rn)
    acc.ev(dict(c=case), nontrivial=bool(sem['flexible'] or sem['primed']),
           n=n)


def bitowner_all(aut, bit):
    for v in aut.vars:
        if bit in ro.bits_of(aut, v):
            return v
    return bit
