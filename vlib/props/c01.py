"""C01 - the Streett(1) winning region is exact (arena + Zielonka oracle)."""
from vlib import families as fam

ID = 'C01'
LEVEL = 'exploration'
RULE = ('every game of families A (all 16x16 action pairs in 3 support '
        'classes x P,G menus x 4 modes) and B (integer / multi-variable / '
        'missing-player / rigid-constant shapes x formula menus); each '
        'solved by omega.games.gr1.solve_streett_game and by an explicit '
        'arena + Zielonka solver; regions compared as sets over the full '
        'bit range. non-trivial = reference region neither empty nor full; '
        'distinct = distinct (declarations, E, S, P, G, mode, back end)')
ASSUMPTIONS = [
    'dd (cudd, autoref) is trusted',
    'read-out decodes bits by the documented two\'s complement convention',
    'reference: explicit arena of the stepwise-implication game, Zielonka',
]


def shards(tier, seed):
    return fam.game_shards(tier, seed)


def scope(tier, seed):
    return fam.scope_text(tier, seed)


def cases(shard):
    return fam.games(shard, rabin=False)


def run_case(case, acc):
    from omega.games import gr1
    aut = fam.build_game(case)
    gm = fam.GameModel(aut, case)
    P = [gm.state_table(u) for u in aut.win['<>[]']]
    G = [gm.state_table(u) for u in aut.win['[]<>']]
    z, yij, xijk = gr1.solve_streett_game(aut)
    got = gm.state_table(z)
    ref = gm.winning(P, G, rabin=False)
    nontrivial = 0 < len(ref) < len(gm.states)
    acc.ev(case, nontrivial)
    if got != ref:
        acc.violation(
            'region_mismatch', case,
            detail=dict(vars=gm.svars, missing=sorted(ref - got),
                        extra=sorted(got - ref)))
