"""C01 - the Streett(1) winning region is exact (arena + Zielonka oracle)."""
from vlib import families as fam

ID = 'C01'
LEVEL = 'exploration'
RULE = ('every game of families A (all 16x16 action pairs in 3 support '
        'classes x P,G menus x 4 modes) and B (integer / multi-variable / '
        'missing-player / rigid-constant shapes x formula menus); each '
        'solved by omega.games.gr1.solve_streett_game and by an explicit '
        'arena + Zielonka solver; regions compared as sets over the full '
        'bit range. non-trivial = reference region neither empty nor full; '
        'distinct = distinct (declarations, E, S, P, G, mode, back end)')
ASSUMPTIONS = [
    'dd (cudd, autoref) is trusted',
    'read-out decodes bits by the documented two\'s complement convention',
    'reference: explicit arena of the stepwise-implication game, Zielonka',
]


def shards(tier, seed):
    out = []
    for sh in fam.game_shards(tier, seed):
        out.append(sh)
        if sh['tier'] != 'thorough' or sh['backend'] == 'autoref':
            s2 = dict(sh)
            s2['part'] = 'seq'
            out.append(s2)
    return out


def scope(tier, seed):
    return fam.scope_text(tier, seed)


def cases(shard):
    if shard.get('part') == 'seq':
        return fam.game_sequences(shard, rabin=False)
    return fam.games(shard, rabin=False)


def run_seq(case, acc):
    """Several games solved one after the other in the SAME automaton."""
    from omega.games import gr1
    aut = fam.build_game(dict(case, **case['steps'][0]))
    gm = fam.GameModel(aut, case)
    for i, st in enumerate(case['steps']):
        aut.moore, aut.plus_one = bool(st['moore']), bool(st['plus_one'])
        aut.win['<>[]'] = [fam.pred_bdd(aut, p) for p in st['P']]
        aut.win['[]<>'] = [fam.pred_bdd(aut, g) for g in st['G']]
        P = [gm.state_table(u) for u in aut.win['<>[]']]
        G = [gm.state_table(u) for u in aut.win['[]<>']]
        z, _, _ = gr1.solve_streett_game(aut)
        got = gm.state_table(z)
        ref = gm.winning(P, G, rabin=False, moore=aut.moore,
                         plus_one=aut.plus_one)
        acc.ev(dict(seq=case, i=i), 0 < len(ref) < len(gm.states))
        if got != ref:
            acc.violation(
                'region_mismatch_in_reused_automaton', case,
                detail=dict(step=i, vars=gm.svars, missing=sorted(ref - got),
                            extra=sorted(got - ref)))
            return
    # change of ownership, edited in place in the same automaton: the first
    # environment variable is handed to the component, then the first
    # component variable to the environment
    # ... and finally the players exchange all their variables
    for v, dst, c2 in fam.ownership_changes(aut, case):
        src = v
        gm2 = fam.GameModel(aut, c2)
        P = [gm2.state_table(u) for u in aut.win['<>[]']]
        G = [gm2.state_table(u) for u in aut.win['[]<>']]
        z, _, _ = gr1.solve_streett_game(aut)
        got = gm2.state_table(z)
        ref = gm2.winning(P, G, rabin=False)
        acc.ev(dict(seq=case, own=src), 0 < len(ref) < len(gm2.states))
        if got != ref:
            acc.violation(
                'region_mismatch_after_ownership_change', case,
                detail=dict(moved=v, to=dst, vars=gm2.svars,
                            missing=sorted(ref - got),
                            extra=sorted(got - ref)))
            return


def run_case(case, acc):
    from omega.games import gr1
    if 'steps' in case:
        return run_seq(case, acc)
    aut = fam.build_game(case)
    gm = fam.GameModel(aut, case)
    P = [gm.state_table(u) for u in aut.win['<>[]']]
    G = [gm.state_table(u) for u in aut.win['[]<>']]
    z, yij, xijk = gr1.solve_streett_game(aut)
    got = gm.state_table(z)
    ref = gm.winning(P, G, rabin=False)
    nontrivial = 0 < len(ref) < len(gm.states)
    acc.ev(case, nontrivial)
    if got != ref:
        acc.violation(
            'region_mismatch', case,
            detail=dict(vars=gm.svars, missing=sorted(ref - got),
                        extra=sorted(got - ref)))
        return
    if case.get('const'):
        # the same identifiers in another role, later in the same process:
        # a fresh automaton in which every rigid constant is a variable of
        # the environment instead (same formulas, same supports)
        c2 = dict(case)
        c2['env'] = list(case['env']) + list(case['const'])
        c2['const'] = []
        aut2 = fam.build_game(c2)
        gm2 = fam.GameModel(aut2, c2)
        P = [gm2.state_table(u) for u in aut2.win['<>[]']]
        G = [gm2.state_table(u) for u in aut2.win['[]<>']]
        z2, _, _ = gr1.solve_streett_game(aut2)
        got = gm2.state_table(z2)
        ref = gm2.winning(P, G, rabin=False)
        acc.ev(dict(c=case, role='constants_as_env'),
               0 < len(ref) < len(gm2.states))
        if got != ref:
            acc.violation(
                'region_mismatch_after_role_change_in_process', case,
                detail=dict(vars=gm2.svars, missing=sorted(ref - got),
                            extra=sorted(got - ref)))
