"""C20 - converting a labelled graph to logic yields exactly its transitions."""
import itertools
import warnings

from vlib import fmodel as fm
from vlib import readout as ro

ID = 'C20'
LEVEL = 'exploration'
RULE = ('graphs over node sets {0}, {0,1}, {0,2} (gap), {0,1,2} (thorough: also '
        '{0,1,2,3}, five nodes with a gap and labelled three-node graphs, as stride samples): (G1) EVERY subset of the node pairs as '
        'unlabelled edges; (G2) on {0,1} every assignment of {absent, 5 '
        'labels} to the 4 node pairs; (G3) parallel edges with every pair '
        'of labels; node labels from {none, y = 0, formula ~ x, x => (y > 0), x <=> (y = 1)}; both '
        'owners, self_loops x2, ignore_initial x2, initial sets rotating '
        'over all non-empty subsets. graph_to_logic is compared over ALL '
        'valuations of (nd, x, y, nd\', x\', y\') of the full bit ranges with '
        'nd a node: owner\'s action <=> [an edge nd -> nd\' whose label holds, '
        'or self-loop requested] and the label of nd\' holds of the next '
        'valuation; dead ends admit nothing; init <=> nd initial (unless '
        'ignored) and its label holds, and never at a value of nd that is no node; the other player\'s action is TRUE '
        'unless receptive; every other graph is converted a second time (the first conversion with other options). non-trivial = graph has a dead end or a labelled '
        'edge; distinct = graph description')
ASSUMPTIONS = ['dd trusted', 'label formulas are evaluated by the reference '
               'evaluator; assignments are read as equalities (open world)']
CASE_TIMEOUT = 60
VARS = dict(x='bool', y=(0, 2))
ENV_VARS = ['x']
ELABELS = [None, {"x'": True}, {"y'": 1}, {'formula': "y' = y"},
           {'formula': "x => (y' > y)"}, {'x': False, "y'": 2}]
NLABELS = [None, {'y': 0}, {'formula': '~ x'},
           {'formula': 'x => (y > 0)'}, {'formula': 'x <=> (y = 1)'}]
OPTS = list(itertools.product(['sys', 'env'], [False, True], [False, True]))


def shards(tier, seed):
    out = []
    for nodes in ([0], [0, 1], [0, 2], [0, 1, 2]):
        npairs = len(nodes) ** 2
        for lo in range(0, 2 ** npairs, 32):
            out.append(dict(kind='G1', nodes=nodes, lo=lo,
                            hi=min(lo + 32, 2 ** npairs), seed=seed))
    for lo in range(0, 6 ** 4, 48):
        out.append(dict(kind='G2', lo=lo, hi=min(lo + 48, 6 ** 4), seed=seed))
    out.append(dict(kind='G3', seed=seed))
    if tier == 'thorough':
        for lo in range(seed % 64, 2 ** 16, 64 * 8):
            out.append(dict(kind='G1', nodes=[0, 1, 2, 3], lo=lo,
                            hi=lo + 8, seed=seed))
        # five nodes (gap at 3): a stride sample of the 2^25 edge subsets
        for i in range(0, 400, 8):
            out.append(dict(kind='G1s', nodes=[0, 1, 2, 4, 5],
                            idx=[i, i + 8], seed=seed))
        # labelled edges on three nodes: a stride sample of the 6^9
        # label assignments
        for i in range(0, 2400, 48):
            out.append(dict(kind='G2s', idx=[i, i + 48], seed=seed))
    return out


def _subsets(nodes):
    out = []
    for k in range(1, len(nodes) + 1):
        out += [list(c) for c in itertools.combinations(nodes, k)]
    return out


def cases(shard):
    seed = shard['seed']
    if shard['kind'] == 'G1':
        nodes = shard['nodes']
        pairs = list(itertools.product(nodes, nodes))
        inits = _subsets(nodes)
        for m in range(shard['lo'], shard['hi']):
            edges = [[u, v, None] for i, (u, v) in enumerate(pairs)
                     if m >> i & 1]
            for j, (owner, sl, ign) in enumerate(OPTS):
                nl = {}
                k = (m + j + seed) % 4
                if k == 1:
                    nl = {nodes[m % len(nodes)]: 1}
                elif k == 2:
                    nl = {nodes[(m + 1) % len(nodes)]: 2}
                elif k == 3 and len(nodes) > 1:
                    nl = {nodes[0]: 1, nodes[-1]: 2}
                yield dict(nodes=nodes, edges=edges, nlabels=nl, owner=owner,
                           self_loops=sl, ignore_initial=ign,
                           initial=inits[(m + j + seed) % len(inits)],
                           receptive=False)
    elif shard['kind'] == 'G1s':
        nodes = shard['nodes']
        pairs = list(itertools.product(nodes, nodes))
        inits = _subsets(nodes)
        stride = (2 ** len(pairs)) // 400
        for i in range(*shard['idx']):
            m = (i * stride + 12345 * (seed + 1)) % (2 ** len(pairs))
            # keep graphs sparse enough to have dead ends and gaps
            m &= (m >> 3) | (m << 2)
            edges = [[u, v, None] for k, (u, v) in enumerate(pairs)
                     if m >> k & 1]
            owner, sl, ign = OPTS[i % len(OPTS)]
            yield dict(nodes=nodes, edges=edges,
                       nlabels={nodes[i % 5]: 1 + i % 2}, owner=owner,
                       self_loops=sl, ignore_initial=ign,
                       initial=inits[i % len(inits)], receptive=False)
    elif shard['kind'] == 'G2s':
        nodes = [0, 1, 2]
        pairs = list(itertools.product(nodes, nodes))
        stride = (6 ** 9) // 2400
        for i in range(*shard['idx']):
            mm = (i * stride + 777 * (seed + 1)) % (6 ** 9)
            edges = []
            for (u, v) in pairs:
                lab = mm % 6
                mm //= 6
                # thin out: most pairs absent
                if lab and (u + 2 * v + i) % 3:
                    edges.append([u, v, lab])
            owner, sl, ign = OPTS[i % len(OPTS)]
            nl = {k: (i + k) % 3 for k in nodes if (i + k) % 3}
            yield dict(nodes=nodes, edges=edges, nlabels=nl, owner=owner,
                       self_loops=sl, ignore_initial=ign,
                       initial=_subsets(nodes)[i % 7], receptive=False)
            if i % 3 == 0:
                # node labels that are a lone formula with a loosely
                # binding top-level operator
                nl = {k: 3 + (i + k) % 2 for k in nodes if (i + k) % 3}
                yield dict(nodes=nodes, edges=edges, nlabels=nl,
                           owner=owner, self_loops=sl, ignore_initial=ign,
                           initial=_subsets(nodes)[i % 7], receptive=False)
    elif shard['kind'] == 'G2':
        nodes = [0, 1]
        pairs = list(itertools.product(nodes, nodes))
        for m in range(shard['lo'], shard['hi']):
            edges = []
            mm = m
            for (u, v) in pairs:
                lab = mm % 6
                mm //= 6
                if lab:
                    edges.append([u, v, lab])
            for j, (owner, sl, ign) in enumerate(OPTS):
                if ign and (m + j) % 2:
                    continue
                nl = {0: (m + j) % 3, 1: (m // 3 + j) % 3}
                nl = {k: v for k, v in nl.items() if v}
                yield dict(nodes=nodes, edges=edges, nlabels=nl, owner=owner,
                           self_loops=sl, ignore_initial=ign,
                           initial=[[0], [1], [0, 1]][(m + j + seed) % 3],
                           receptive=(owner == 'sys' and (m + j) % 5 == 0))
    else:
        for a, b in itertools.product(range(1, 6), repeat=2):
            for owner, sl, ign in OPTS:
                if ign:
                    continue
                yield dict(nodes=[0, 1], edges=[[0, 1, a], [0, 1, b],
                                                [1, 0, None]],
                           nlabels={}, owner=owner, self_loops=sl,
                           ignore_initial=False, initial=[0],
                           receptive=False)
        # node labels that are a lone formula with a loosely binding
        # top-level operator, on every two-node graph
        nodes = [0, 1]
        pairs = list(itertools.product(nodes, nodes))
        for m in range(16):
            edges = [[u, v, (m + i) % 6 or None]
                     for i, (u, v) in enumerate(pairs) if m >> i & 1]
            for j, (owner, sl, ign) in enumerate(OPTS):
                for nl in ({0: 3}, {1: 4}, {0: 4, 1: 3}, {0: 1, 1: 3}):
                    yield dict(nodes=nodes, edges=edges, nlabels=nl,
                               owner=owner, self_loops=sl,
                               ignore_initial=ign,
                               initial=[[0], [1], [0, 1]][(m + j) % 3],
                               receptive=False)


def run_case(case, acc):
    from omega.automata import TransitionSystem
    import omega.symbolic.logicizer as lg
    nodes = case['nodes']
    g = TransitionSystem()
    g.owner = case['owner']
    g.vars = dict(VARS)
    g.env_vars = set(ENV_VARS)
    for u in nodes:
        lab = case['nlabels'].get(u) or case['nlabels'].get(str(u))
        g.add_node(u, **(dict(NLABELS[lab]) if lab else {}))
    for u, v, lab in case['edges']:
        g.add_edge(u, v, **(dict(ELABELS[lab]) if lab else {}))
    # the documented way (`g.initial_nodes.add(u)`, doc/doc.md) for two
    # graphs of three, a fresh set for the third
    if (len(case['edges']) + len(case['initial'])) % 3:
        for u in case['initial']:
            g.initial_nodes.add(u)
    else:
        g.initial_nodes = set(case['initial'])
    with warnings.catch_warnings():
        warnings.simplefilter('ignore')
        if (len(case['edges']) + len(case['nlabels'])) % 2:
            # every other graph has been converted before (once with the
            # receptiveness assumptions if the component owns it): the
            # conversion must not consume the graph
            lg.graph_to_logic(g, 'nd', case['ignore_initial'],
                              receptive=(case['owner'] == 'sys'),
                              self_loops=not case['self_loops'])
        aut = lg.graph_to_logic(
            g, 'nd', case['ignore_initial'], receptive=case['receptive'],
            self_loops=case['self_loops'])
    names = ['nd', 'x', 'y', "nd'", "x'", "y'"]
    rd = ro.Reader(aut, names)
    owner = case['owner']
    other = 'env' if owner == 'sys' else 'sys'
    A = rd.table(aut.action[owner])
    srd = ro.Reader(aut, ['nd', 'x', 'y'])
    I = srd.table(aut.init[owner])
    ndr = ro.var_range(aut, 'nd')
    ranges = {n: ro.var_range(aut, n) for n in names}
    model = fm.Model(ranges)
    nodeset = set(nodes)
    succ = {u: [] for u in nodes}
    for u, v, lab in case['edges']:
        succ[u].append((v, ELABELS[lab] if lab else {}))
    nlab = {u: NLABELS[case['nlabels'].get(u) or
                       case['nlabels'].get(str(u)) or 0] or {}
            for u in nodes}
    _parsed = {}

    def holds(label, env):
        for k, val in label.items():
            if k == 'formula':
                t = _parsed.get(val)
                if t is None:
                    t = _parsed[val] = fm.parse(val)
                if not model.ev(t, env):
                    return False
            elif env[k] != val:
                return False
        return True
    dead = any(not succ[u] for u in nodes)
    labelled = any(lab for _, _, lab in case['edges'])
    acc.ev(dict(c=case), nontrivial=dead or labelled)
    # action of the owner
    for row in itertools.product(*[ranges[n] for n in names]):
        env = dict(zip(names, row))
        nd, ndp = env['nd'], env["nd'"]
        if nd not in nodeset:
            continue
        edge = any(v == ndp and holds(lab, env) for v, lab in succ[nd])
        if case['self_loops'] and ndp == nd:
            edge = True
        # label of the target node on the next valuation; the constraint
        # "(nd = u) => label(u)" is primed for EVERY node u
        penv = {'x': env["x'"], 'y': env["y'"], 'nd': ndp}
        tgt = all(holds(nlab[u], penv) for u in nodes if u == ndp)
        exp = edge and tgt
        if (row in A) != exp:
            acc.violation('owner_action_differs_from_graph', case, detail=dict(
                vars=names, valuation=row, action_holds=row in A,
                expected=exp, edge_exists=edge, target_label_holds=tgt))
            return
    # initial condition
    for row in itertools.product(*[ranges[n] for n in ('nd', 'x', 'y')]):
        env = dict(zip(('nd', 'x', 'y'), row))
        nd = env['nd']
        if nd not in nodeset:
            # a value of the node variable that is no node of the graph is
            # never initial (without ignore_initial)
            exp = bool(case['ignore_initial'])
        else:
            exp = (case['ignore_initial'] or nd in case['initial']) and \
                holds(nlab[nd], env)
        if (row in I) != exp:
            acc.violation('initial_condition_differs_from_graph', case,
                          detail=dict(valuation=row, init_holds=row in I,
                                      expected=exp))
            return
    if not case['receptive']:
        if aut.action[other] != aut.true:
            acc.violation('other_player_constrained', case,
                          detail=dict(player=other))
            return
        if aut.init[other] != aut.true:
            acc.violation('other_player_init_constrained', case,
                          detail=dict(player=other))
