"""C02 / C05: closed-loop exploration of synthesized implementations."""
from vlib import families as fam
from vlib import synth
from vlib.loop import ClosedLoop
from vlib.runner import stable_hash


def shards(tier, seed):
    return fam.game_shards(tier if tier != 'thorough' else 'quick', seed,
                           ) if tier != 'thorough' else _thorough(seed)


def _thorough(seed):
    # quick predicate menus, but every qinit form, more init combinations,
    # and autoref on all of family A and B
    sh = fam.a_shards('quick', seed) + fam.b_shards('thorough', seed)
    sh += fam.a_shards('quick', seed, backends=('autoref',))
    sh += fam.b_shards('quick', seed, backends=('autoref',))
    for s in sh:
        s['deep'] = True
    return sh


def cases(shard, rabin):
    deep = shard.get('deep', False)
    for c in fam.games(shard, rabin=rabin):
        combos = synth.init_combos(c)
        by_q = {}
        for q, ei, si in combos:
            by_q.setdefault(q, []).append((q, ei, si))
        h = int(stable_hash(c)[:8], 16)
        chosen = []
        qs = synth.QINITS
        if deep:
            for q in qs:
                lst = by_q[q]
                chosen.append(lst[h % len(lst)])
                chosen.append(lst[(h // 7 + 1) % len(lst)])
        else:
            forms = (qs[h % 4], qs[(h // 4 + 1 + h % 4) % 4])
            if rabin or (h // 64) % 2:
                # one form for Rabin and for every other Streett game (C03
                # crosses all forms with both objectives)
                forms = forms[:1]
            for q in forms:
                lst = by_q[q]
                chosen.append(lst[(h // 16) % len(lst)])
        seen = []
        for ch in chosen:
            if ch not in seen:
                seen.append(ch)
        d = dict(c)
        d['inits'] = [list(x) for x in seen]
        yield d


def run_case(case, acc, rabin, pid):
    # every third game is synthesized in an automaton with a history (an
    # earlier solve under another ownership of the variables)
    reuse = (int(stable_hash({k: v for k, v in case.items()
                              if k != 'inits'})[:4], 16) % 3 == 0) \
        if 'reuse' not in case else bool(case['reuse'])
    case = dict(case, reuse=reuse)
    first = synth.Synth(case, reuse=reuse)
    if not first.ztab:
        acc.ev(n=len(case['inits']))
        acc.count('skipped_empty_region', len(case['inits']))
        return
    W = first.reference_region()
    for i, (q, ei, si) in enumerate(case['inits']):
        sub = dict(case)
        sub['inits'] = [[q, ei, si]]
        sy = first if i == 0 else synth.Synth(case, reuse=reuse)
        sy.set_init(q, ei, si)
        run_one(sub, sy, W, acc, rabin, pid)


def run_one(case, sy, W, acc, rabin, pid):
    aut, gm = sy.aut, sy.gm
    try:
        real = synth.is_realizable(sy.z, aut)
    except AssertionError:
        real = False
    if not real:
        acc.ev()
        acc.count('skipped_unrealizable')
        return
    try:
        synth.make_transducer(aut, sy.iterates, rabin)
    except AssertionError:
        # premise of the property is "whenever construction succeeds";
        # refusals are C03's subject
        acc.ev()
        acc.count('skipped_construction_refused')
        return
    mem = synth.memory_vars(rabin)
    cl = ClosedLoop(aut, gm, mem)
    acc.count('states', len(cl.R))
    acc.count('transitions', cl.n_edges)
    key = dict(k=pid, c=case)
    acc.ev(key, nontrivial=len(cl.R) > 1 and cl.n_edges > 0)
    vars_ = cl.full
    # 6. initial states are winning and memory starts at its initial value
    m0 = synth.memory_init(case, rabin)
    for s in cl.I:
        if cl.spec_part(s) not in W:
            acc.violation('initial_state_not_winning', case,
                          detail=dict(vars=vars_, state=s))
            break
        if s[cl.nsv:] != m0:
            acc.violation('memory_not_initial', case,
                          detail=dict(vars=vars_, state=s, expected=m0))
            break
    # 1. refinement of the specified action
    r = cl.check_action_refines()
    if r is not None:
        acc.violation('step_violates_component_action', case,
                      detail=dict(vars=cl.trd.names, **r))
    # 2. memory range
    bad = cl.mem_out_of_range()
    if bad:
        acc.violation('memory_out_of_range', case, detail=dict(
            vars=vars_, state=bad[0], path=cl.path_to(bad[0])))
    # 3. never blocked
    strict = (not rabin) or gm.plus_one
    blocked = cl.blocked_states(obliged_only=not strict)
    if blocked:
        s = blocked[0]
        # signature for known finding F3: the environment is forced to
        # break its action from here (state in the reference CPre(empty))
        forced = cl.spec_part(s) in gm.cpre(set())
        sig = dict(rabin=rabin, plus_one=gm.plus_one,
                   env_forced_to_break_action=forced)
        if rabin:
            # signature of finding F13: the hold index names a persistence
            # set whose cycle set, at the state's own iterate, does not
            # contain the state (index picked in a later iterate)
            stale = [_stale_hold(x, cl, sy, case) for x in blocked]
            sig['all_blocked_have_stale_hold_index'] = all(stale)
            if not all(stale):
                s = blocked[stale.index(False)]
        acc.violation('blocked', case, detail=dict(
            vars=vars_, state=s, path=cl.path_to(s),
            n_blocked=len(blocked)), **sig)
    # 4. Moore independence
    if gm.moore:
        r = cl.check_moore_independent()
        if r is not None:
            acc.violation('moore_depends_on_next_env', case,
                          detail=dict(vars=cl.trd.names, **r))
    # 5. liveness
    lv = cl.liveness_violations(sy.P, sy.G, rabin)
    if lv:
        acc.violation('liveness_' + lv[0]['kind'], case, detail=dict(
            vars=vars_, **lv[0]))
    # conformance: BFS tree replayed through omega's own substitution
    n, mis = cl.replay_through_impl()
    acc.count('traces_validated_against_impl', n)
    if mis is not None:
        acc.violation('model_trace_not_confirmed_by_impl', case,
                      detail=dict(vars=vars_, **mis))


def _stale_hold(s, cl, sy, case):
    """Is `_hold` at state `s` an index of a persistence set that the
    library's own iterates do not associate with this state?"""
    zk, yki, _ = sy.iterates
    gm = sy.gm
    sp = cl.spec_part(s)
    hold = s[cl.nsv]
    none = len(case['P'])
    if hold == none or not 0 <= hold < none:
        return False
    for z, yi in zip(zk, yki):
        if sp in gm.state_table(z):
            return sp not in gm.state_table(yi[hold])
    return False
