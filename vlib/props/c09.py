"""C09 - the computed cover is a minimum-cardinality cover by prime boxes."""
from vlib.props import _cover as cv

ID = 'C09'
LEVEL = 'exploration'
RULE = ('ALL non-empty predicates over 1-3 two-valued variables and over the '
        'grids 0..3, -2..1, -4..-1, 0..7, 0..3x0..1, -2..1x0..1, -4..-1x0..1 '
        '; plus, beyond the exhaustive scope, a committed corpus of 396 32-point instances (with parameter orders) chosen so that every shape of the branch-and-bound search of length <= 50 observed in a sweep of 24000 instances occurs, and the cyclic-core instances and every fourth of 1600 (thorough 24000) seed-indexed 32-point predicates over five 0..1 variables and 400 (6000) over 0..3x0..3x0..1, each also with the auxiliary parameters pre-declared in 2 (3) other orders (thorough: all 65535 over 4 two-valued variables, over 0..3x-2..1 and over -4..-1x-2..1; '
        'quick: 2048 of each, spread with stride 32 from a seed-selected offset, plus EVERY predicate of these three whose covering problem has a non-empty cyclic core) x care in {TRUE, type '
        'hints, f|g, a care set missing a point of f}; cover.minimize read '
        'out to a set of boxes and compared with brute force: only maximal '
        'boxes inside f|~care, every point of f covered, cardinality = the '
        'minimum found by exhaustive set-cover search. non-trivial = minimum '
        'cover has >= 2 boxes; distinct = (grid, f, care, back end)')
ASSUMPTIONS = ['dd trusted', 'reference primes and minimum covers by brute '
               'force over at most 16 points / 100 boxes']
CASE_TIMEOUT = 120
SMALL = ['b1', 'b2', 'b3', 'g4', 's4', 'n4', 'g8', 'g42', 's42', 'n42']
BIG = ['b4', 'g44', 'n44']
BLOCK = 2048


def shards(tier, seed, spread=BLOCK, cyclic_grids=None, small=None,
           large=None):
    cyclic_grids = BIG if cyclic_grids is None else cyclic_grids
    out = [dict(extra=True)]
    for g in (SMALL if small is None else small):
        n = len(cv.space_of(g))
        full = (1 << n) - 1
        step = 32 if n >= 8 else full
        for lo in range(1, full + 1, step):
            out.append(dict(grid=g, lo=lo, hi=min(lo + step - 1, full),
                            backend='cudd'))
    for g in ('b3', 'g42'):
        out.append(dict(grid=g, lo=1 + 37 * (seed % 5), hi=40 + 37 * (seed % 5),
                        backend='autoref'))
    for g in BIG:
        if tier == 'thorough':
            for lo in range(1, 65536, 256):
                out.append(dict(grid=g, lo=lo, hi=min(lo + 255, 65535),
                                backend='cudd'))
            continue
        else:
            # 2048 masks spread over the whole range (stride 32), the
            # offset chosen by the seed
            off = (seed * 7 + 3 * BIG.index(g)) % 32
            for lo in range(0, spread, 128):
                out.append(dict(grid=g, spread=[off, lo, lo + 128],
                                backend='cudd', care='TRUE+hints'))
            # and EVERY predicate whose covering problem (care = TRUE) has
            # a non-empty cyclic core, i.e. needs branching
            for lo in range(1, 65536 if g in cyclic_grids else 0, 512):
                out.append(dict(grid=g, cyclic=[lo, min(lo + 511, 65535)],
                                backend='cudd', care='TRUE+hints'))
    # larger instances (32 points): NOT exhaustive - the property's own
    # quantifier asks for "sampled larger instances with non-empty cyclic
    # cores": a deterministic, seed-indexed family of predicates with 12..25
    # points, kept if the covering problem has a non-empty cyclic core (and
    # every fourth one regardless)
    n_large = large if large is not None else (
        24000 if tier == 'thorough' else 1600)
    for g in ('b5', 'g444'):
        n = n_large if g == 'b5' else n_large // 4
        for i in range(0, n, 16):
            out.append(dict(grid=g, large=[i, i + 16, seed],
                            backend='cudd', care='TRUE+hints',
                            orders='all' if tier == 'thorough' else 'two'))
    # branch-and-bound corpus: 32-point instances selected (on the pinned
    # tree) so that every observed SHAPE of the search - the sequence of
    # traverse / branch / left / right / terminal / prune / prune-both
    # events that cover.minimize logs - of length <= 50 occurs, each with
    # the parameter order under which it was observed
    nc = len(_corpus())
    for i in range(0, nc, 12):
        out.append(dict(corpus=[i, min(i + 12, nc)], backend='cudd'))
    return out


_CORPUS = None


def _corpus():
    global _CORPUS
    if _CORPUS is None:
        import json
        import os
        p = os.path.join(os.path.dirname(os.path.dirname(
            os.path.abspath(__file__))), 'data', 'c09_bnb_corpus.json')
        _CORPUS = json.load(open(p))
    return _CORPUS


def _large_masks(grid, lo, hi, seed):
    import random
    import itertools
    from vlib import boxes as bx
    from vlib import readout as ro
    rngs = [ro.rep_range(h) for _, h in cv.GRIDS[grid]]
    sp = list(itertools.product(*rngs))
    allb = bx.all_boxes(rngs)
    bpts = {b: frozenset(bx.box_points(b)) for b in allb}
    for i in range(lo, hi):
        rnd = random.Random(f'{grid}-{seed}-{i}')
        k = rnd.randint(12, 25)
        F = frozenset(rnd.sample(sp, k))
        impl = [b for b in allb if bpts[b] <= F]
        pr = [b for b in impl
              if not any(b != c and bpts[b] < bpts[c] for c in impl)]
        if bx.cyclic_core_size(F, pr) > 0 or i % 4 == 0:
            yield sum(1 << j for j, p in enumerate(sp) if p in F)


# witnesses of past findings: always part of the scope
EXTRA = [
    dict(grid='n44', f=1285, care=19748, care_name='f_minus_point|alt',
         backend='cudd'),   # F14: pruned top-level search -> NameError
]


def cases(shard):
    if shard.get('extra'):
        yield from EXTRA
        return
    if 'corpus' in shard:
        for shape, g, m, order in _corpus()[slice(*shard['corpus'])]:
            full = (1 << len(cv.space_of(g))) - 1
            yield dict(grid=g, f=m, care=full, care_name='TRUE',
                       backend=shard['backend'], order=order, shape=shape)
        return
    g = shard['grid']
    if 'spread' in shard:
        off, lo, hi = shard['spread']
        fs = [1 + (off + 32 * i) % 65535 for i in range(lo, hi)]
    elif 'cyclic' in shard:
        fs = _cyclic(g, *shard['cyclic'])
    elif 'large' in shard:
        fs = _large_masks(g, *shard['large'])
    else:
        fs = range(shard['lo'], shard['hi'] + 1)
    for f in fs:
        done = set()
        for cname, cm in cv.care_menu(g, f):
            if shard.get('care') and cname not in ('TRUE', 'hints'):
                continue
            if cm in done:
                continue     # e.g. hints = TRUE over two-valued variables
            done.add(cm)
            n = len(cv.space_of(g))
            if f == (1 << n) - 1 and cm == f:
                continue
            yield dict(grid=g, f=f, care=cm, care_name=cname,
                       backend=shard['backend'])
            if 'large' in shard and cname == 'TRUE':
                # larger instances also under other orders of the
                # auxiliary parameters
                for order in ((1, 3) if shard.get('orders') != 'all'
                              else (1, 2, 3)):
                    yield dict(grid=g, f=f, care=cm, care_name=cname,
                               backend=shard['backend'], order=order)


def _cyclic(grid, lo, hi):
    import itertools
    from vlib import boxes as bx
    from vlib import readout as ro
    rngs = [ro.rep_range(h) for _, h in cv.GRIDS[grid]]
    sp = list(itertools.product(*rngs))
    allb = bx.all_boxes(rngs)
    bpts = {b: frozenset(bx.box_points(b)) for b in allb}
    for f in range(lo, hi + 1):
        F = frozenset(p for i, p in enumerate(sp) if f >> i & 1)
        impl = [b for b in allb if bpts[b] <= F]
        pr = [b for b in impl
              if not any(b != c and bpts[b] < bpts[c] for c in impl)]
        if bx.cyclic_core_size(F, pr) > 0:
            yield f


def run_case(case, acc):
    import omega.symbolic.cover as cov
    ctx, f, care, names, sp = cv.build(case['grid'], case['f'], case['care'],
                                       case['backend'],
                                       order=case.get('order', 0))
    dn, primes, k, covers, Fp, Cp = cv.reference(
        case['grid'], case['f'], case['care'])
    if case['grid'] in ('b5', 'g444'):
        acc.count('sampled_instances_beyond_the_exhaustive_scope')
    if 'shape' in case:
        with _ShapeLog() as sl:
            cover = cov.minimize(f, care, ctx)
        # coverage information only (a different but correct search order
        # is no violation)
        acc.count('corpus_search_shape_as_recorded'
                  if sl.shape() == case['shape'] else
                  'corpus_search_shape_differs')
        acc.add_to_set('corpus_search_shapes', sl.shape())
    else:
        cover = cov.minimize(f, care, ctx)
    got = cv.read_cover(ctx, cover, dn)
    acc.ev(dict(c=case), nontrivial=(k or 0) >= 2)
    check_cover(got, dn, primes, k, covers, Fp, case, acc, 'C09')


class _ShapeLog:
    """Record the shape of the branch-and-bound search from the INFO
    messages of `omega.symbolic.cover` (public logging seam)."""

    TOK = [('---- traverse ----', 'T'), ('terminal case', 't'),
           ('prune both', 'X'), ('prune', 'p'), ('both branches pruned', 'x'),
           ('---- branch ----', 'B'), ('left branch', 'L'),
           ('right branch', 'R')]

    def __enter__(self):
        import logging
        self.tok = []
        outer = self

        class H(logging.Handler):
            def emit(self, rec):
                m = rec.getMessage().strip()
                for pre, t in outer.TOK:
                    if m.startswith(pre):
                        outer.tok.append(t)
                        break
        self.h = H()
        self.lg = logging.getLogger('omega.symbolic.cover')
        self.old = (self.lg.level, self.lg.propagate)
        self.lg.setLevel(logging.INFO)
        self.lg.propagate = False
        self.lg.addHandler(self.h)
        return self

    def __exit__(self, *a):
        self.lg.removeHandler(self.h)
        self.lg.setLevel(self.old[0])
        self.lg.propagate = self.old[1]

    def shape(self):
        return ''.join(self.tok)


def check_cover(got, dn, primes, k, covers, Fp, case, acc, pid):
    from vlib import boxes as bx
    pset = set(primes)
    notprime = [b for b in got if b not in pset]
    if notprime:
        acc.violation('box_not_a_maximal_box_inside_f_or_dontcare', case,
                      detail=dict(vars=dn, box=notprime[0],
                                  cover=sorted(got), primes=sorted(pset)))
        return False
    unc = [p for p in Fp if not any(bx.in_box(p, b) for b in got)]
    if unc:
        acc.violation('point_of_f_not_covered', case, detail=dict(
            vars=dn, point=unc[0], cover=sorted(got)))
        return False
    if len(got) != k:
        acc.violation('cover_not_minimum', case, detail=dict(
            vars=dn, size=len(got), minimum=k, cover=sorted(got),
            a_minimum_cover=sorted(next(iter(covers)))))
        return False
    if got not in covers:
        acc.violation('cover_not_among_reference_minimum_covers', case,
                      detail=dict(vars=dn, cover=sorted(got)))
        return False
    return True
