"""C11 - CPre, attractor, trap, image, descendants are exact."""
import itertools

from vlib import families as fam

ID = 'C11'
LEVEL = 'exploration'
RULE = ('actions: all 16x16 pairs in each support class of family A and the '
        'formula menus of shapes B1, B2, B4, B6, x 4 modes; per game: step on '
        'every state set (A) / a menu (B) vs. the pointwise formula; '
        'attractor and trap vs. Knaster-Tarski by brute force over all '
        'subsets of states (intersection of pre-fixpoints / union of '
        'post-fixpoints); attractor(inside) vs. the documented recurrence; '
        'ee_image vs. explicit successors; descendants: inside constrain, '
        'closed under constrained successors, between constrained and '
        'reachability along paths leaving the constraint at most at the seed; image, descendants and unprime again after MORE variables were declared in an automaton that had already answered such a query (3 staged scenarios x 4 first queries x 2 back ends); every (E, S) also with the four modes '
        'exercised one after the other in one reused automaton. non-trivial = CPre of some set is '
        'neither empty nor full; distinct = (E, S, mode, back end)')
ASSUMPTIONS = ['dd trusted', 'state sets are built from explicit points '
               'with dd.cube, not through the parser']

MENU8 = [0b0000, 0b1111, 0b0001, 0b0110, 0b1000, 0b1011, 0b0101, 0b1100]


def shards(tier, seed):
    out = []
    for cls in fam.A_CLASSES:
        for be in (('cudd', 'autoref') if tier == 'thorough' else ('cudd',)):
            for e in range(16):
                out.append(dict(fam=cls, backend=be, E=e, tier=tier,
                                seed=seed))
    out += [dict(fam='A1', backend='autoref', E=e, tier=tier, seed=seed)
            for e in ((seed % 16), (seed + 7) % 16)] if tier != 'thorough' \
        else []
    out += [dict(fam='staged', backend=be, tier=tier, seed=seed)
            for be in ('cudd', 'autoref')]
    for name in ('B1', 'B2', 'B4', 'B6', 'B7'):
        for ei in range(len(fam.B_SHAPES[name]['E'])):
            out.append(dict(fam=name, backend='cudd', E=ei, tier=tier,
                            seed=seed))
    return out


STAGED = [
    # (hint of x, first action, hint of y, second action)
    ((0, 2), "(x' = x + 1) \\/ (x' = 0)", 'bool',
     "(x' = x) /\\ (y' <=> ~ y)"),
    ((-2, 1), "x' = 0 - x", (-3, -1),
     "((x' = x + 1) /\\ (y' = y)) \\/ ((x' = x) /\\ (y' = -1))"),
    ((0, 3), "x' > x", (0, 2), "(x' = y) /\\ (y' < y)"),
]


def cases(shard):
    if shard['fam'] == 'staged':
        for i in range(len(STAGED)):
            for first in ('image', 'descendants', 'unprime', 'none'):
                yield dict(staged=i, first=first, backend=shard['backend'])
        return
    if shard['fam'].startswith('A'):
        evars, svars = fam.A_CLASSES[shard['fam']]
        for s in range(16):
            for moore, plus_one in fam.MODES:
                c = dict(fam.A_DECL)
                c.update(fam=shard['fam'], backend=shard['backend'],
                         E=['tt', evars, shard['E']], S=['tt', svars, s],
                         P=[], G=[], moore=moore, plus_one=plus_one,
                         tier=shard['tier'], seed=shard['seed'])
                yield c
            k = (s + shard['E']) % 4
            c = dict(c)
            c['mode_seq'] = [list(m) for m in fam.MODES[k:] + fam.MODES[:k]]
            yield c
    else:
        sh = fam.B_SHAPES[shard['fam']]
        for si, s in enumerate(sh['S']):
            for moore, plus_one in fam.MODES:
                c = dict(
                    fam=shard['fam'], backend=shard['backend'],
                    env=sh['env'], sys=sh['sys'], const=sh['const'],
                    E=['expr', sh['E'][shard['E']]], S=['expr', s],
                    P=[], G=[], moore=moore, plus_one=plus_one,
                    tier=shard['tier'], seed=shard['seed'])
                yield c
            k = (si + shard['E']) % 4
            c = dict(c)
            c['mode_seq'] = [list(m) for m in fam.MODES[k:] + fam.MODES[:k]]
            yield c


def _sets(case, gm, aut):
    """Menu of state sets (as frozensets) used as targets etc."""
    n = len(gm.states)
    if n <= 4:
        masks = list(range(1 << n))
    else:
        sh = fam.B_SHAPES[case['fam']]
        sets = [frozenset(), frozenset(gm.states)]
        for e in sh['P'] + sh['G']:
            sets.append(frozenset(gm.state_table(aut.add_expr(e))))
        # a few explicit sets: singletons and a complement
        sets.append(frozenset([gm.states[0]]))
        sets.append(frozenset(gm.states[1:]))
        sets.append(frozenset(gm.states[i] for i in range(0, n, 3)))
        uniq = []
        for s in sets:
            if s not in uniq:
                uniq.append(s)
        return uniq
    return [frozenset(s for i, s in enumerate(gm.states) if m >> i & 1)
            for m in masks]


def run_case(case, acc):
    before = sum(v for k, v in acc.counters.items() if k.endswith('_calls'))
    try:
        _run_case(case, acc)
    finally:
        after = sum(v for k, v in acc.counters.items()
                    if k.endswith('_calls'))
        acc.evals += max(after - before, 1)


def _run_staged(case, acc):
    """Image operators after MORE variables were declared in an automaton
    that already answered an image / unprime query."""
    import omega.symbolic.temporal as trl
    import omega.symbolic.prime as prm
    from omega.symbolic import fixpoint as fx
    from vlib import readout as ro
    hx, a1, hy, a2 = STAGED[case['staged']]
    aut = trl.Automaton()
    if case['backend'] == 'autoref':
        import dd.autoref
        aut.bdd = dd.autoref.BDD()
    aut.declare_variables(x=hx)
    aut.varlist.update(env=[], sys=['x'])
    aut.prime_varlists()
    aut.action['env'] = aut.true
    aut.action['sys'] = aut.add_expr(a1)

    def check(names, where):
        pn = [v + "'" for v in names]
        A = ro.Reader(aut, names + pn).table(aut.action['sys'])
        rd = ro.Reader(aut, names)
        space = rd.space()
        k = len(names)
        menu = [frozenset(space[:1]), frozenset(space[1::2]),
                frozenset(space), frozenset(space[-2:])]
        for src in menu:
            exp = {r[k:] for r in A if r[:k] in src}
            got = rd.table(fx.ee_image(rd.from_rows(src), aut))
            acc.count('image_calls')
            if got != exp:
                acc.violation('image_mismatch', case, detail=dict(
                    where=where, vars=names, source=sorted(src),
                    got=sorted(got), ref=sorted(exp)))
                return False
            reach = set()
            front = set(exp)
            while front:
                reach |= front
                front = {r[k:] for r in A if r[:k] in front} - reach
            got = rd.table(fx.descendants(rd.from_rows(src), aut.true, aut))
            acc.count('descendants_calls')
            if got != reach:
                acc.violation('descendants_mismatch', case, detail=dict(
                    where=where, vars=names, source=sorted(src),
                    got=sorted(got), ref=sorted(reach)))
                return False
        # unprime of a predicate over the primed copies
        for row in (space[0], space[-1]):
            u = ro.Reader(aut, pn).from_rows({row})
            got = rd.table(prm.unprime(u, aut))
            acc.count('unprime_calls')
            if got != {row}:
                acc.violation('unprime_mismatch', case, detail=dict(
                    where=where, vars=names, row=row, got=sorted(got)))
                return False
        return True
    # a first query on the smaller automaton
    x0 = ro.Reader(aut, ['x']).from_rows({ro.Reader(aut, ['x']).space()[0]})
    if case['first'] == 'image':
        fx.ee_image(x0, aut)
    elif case['first'] == 'descendants':
        fx.descendants(x0, aut.true, aut)
    elif case['first'] == 'unprime':
        prm.unprime(aut.add_expr("x' = 0"), aut)
    if case['first'] != 'none' and not check(['x'], 'before'):
        return
    # more variables, a new action
    aut.declare_variables(y=hy)
    aut.varlist['sys'].append('y')
    aut.prime_varlists()
    aut.action['sys'] = aut.add_expr(a2)
    check(['x', 'y'], 'after declaring more variables')


def _run_case(case, acc, aut=None, report=None):
    from omega.symbolic import fixpoint as fx
    if 'staged' in case:
        return _run_staged(case, acc)
    if 'mode_seq' in case:
        # all four modes one after the other in ONE automaton
        aut = fam.build_game(case)
        for moore, plus_one in case['mode_seq']:
            aut.moore, aut.plus_one = bool(moore), bool(plus_one)
            c = dict(case, moore=moore, plus_one=plus_one)
            c.pop('mode_seq')
            c['reused_automaton'] = True
            _run_case(c, acc, aut, report=case)
        # ownership of a variable changed in place, then CPre again
        for v, dst, c2 in fam.ownership_changes(aut, case):
            aut.build()
            gm2 = fam.GameModel(aut, c2)
            E, S = aut.action['env'], aut.action['sys']
            for fs in _sets(c2, gm2, aut)[:16]:
                got = gm2.state_table(fx.step(E, S, gm2.srd.from_rows(fs),
                                              aut))
                acc.count('step_calls')
                if got != gm2.cpre(fs):
                    acc.violation(
                        'step_mismatch_after_ownership_change', case,
                        detail=dict(moved=v, to=dst, vars=gm2.svars,
                                    target=sorted(fs), got=sorted(got),
                                    ref=sorted(gm2.cpre(fs))))
                    return
        return
    if aut is None:
        aut = fam.build_game(case)
    aut.build()
    rcase = case if report is None else report
    gm = fam.GameModel(aut, case)
    E, S = aut.action['env'], aut.action['sys']
    states = gm.states
    n = len(states)
    allsets = _sets(case, gm, aut)
    small = n <= 4
    tier = case.get('tier', 'quick')
    bdd_of = {}

    def B(fs):
        u = bdd_of.get(fs)
        if u is None:
            u = gm.srd.from_rows(fs)
            bdd_of[fs] = u
        return u

    T = gm.state_table
    # --- step on every set; cache explicit cpre on all subsets
    cp = {}

    def CP(fs):
        r = cp.get(fs)
        if r is None:
            r = frozenset(gm.cpre(fs))
            cp[fs] = r
        return r
    nontrivial = False
    for fs in allsets:
        got = T(fx.step(E, S, B(fs), aut))
        ref = CP(fs)
        acc.count('step_calls')
        if 0 < len(ref) < n:
            nontrivial = True
        if got != ref:
            acc.violation('step_mismatch', rcase, detail=dict(
                vars=gm.svars, target=sorted(fs), got=sorted(got),
                ref=sorted(ref)))
            break
    acc.ev(dict(k='c11', c=case), nontrivial, n=0)
    # --- all subsets, for Knaster-Tarski
    if n <= 8:
        subsets = [frozenset(s for i, s in enumerate(states) if m >> i & 1)
                   for m in range(1 << n)]
    else:
        subsets = None
    full = frozenset(states)

    def lfp_kt(f):
        r = full
        for X in subsets:
            if f(X) <= X:
                r = r & X
        return r

    def gfp_kt(f):
        r = frozenset()
        for X in subsets:
            if X <= f(X):
                r = r | X
        return r

    def lfp_iter(f, start=frozenset()):
        q = start
        while True:
            q2 = f(q)
            if q2 == q:
                return q
            q = q2
    # pairs menu
    if small:
        idx = list(range(16)) if tier == 'thorough' else MENU8
        menu = [frozenset(s for i, s in enumerate(states) if m >> i & 1)
                for m in idx]
    else:
        menu = allsets[:8]
    # --- attractor without inside, trap without unless
    for fs in (allsets if small else menu):
        got = T(fx.attractor(E, S, B(fs), aut))
        acc.count('attractor_calls')
        if subsets is not None:
            ref = lfp_kt(lambda X: fs | CP(X))
        else:
            ref = lfp_iter(lambda X: X | fs | CP(X))
        if got != ref:
            acc.violation('attractor_not_least_fixpoint', rcase, detail=dict(
                vars=gm.svars, target=sorted(fs), got=sorted(got),
                ref=sorted(ref)))
            break
    for fs in (allsets if small else menu):
        got = T(fx.trap(E, S, B(fs), aut))
        acc.count('trap_calls')
        if subsets is not None:
            ref = gfp_kt(lambda X: fs & CP(X))
        else:
            ref = None
        if ref is not None and got != ref:
            acc.violation('trap_not_greatest_fixpoint', rcase, detail=dict(
                vars=gm.svars, safe=sorted(fs), got=sorted(got),
                ref=sorted(ref)))
            break
    # --- with inside / unless
    bad = False
    for tg, ins in itertools.product(menu, menu):
        got = T(fx.attractor(E, S, B(tg), aut, inside=B(ins)))
        acc.count('attractor_inside_calls')
        # documented recurrence q <- (q | CPre q) & inside, from q = target
        q = tg
        while True:
            q2 = (q | CP(q)) & ins
            if q2 == q:
                break
            q = q2
        ok = (got == q)
        if ok and tg <= ins and subsets is not None:
            kt = lfp_kt(lambda X: (tg | CP(X)) & ins)
            ok = (got == kt)
        if not ok:
            acc.violation('attractor_inside_mismatch', rcase, detail=dict(
                vars=gm.svars, target=sorted(tg), inside=sorted(ins),
                got=sorted(got), ref=sorted(q)))
            bad = True
            break
    for sf, un in itertools.product(menu, menu):
        if bad:
            break
        got = T(fx.trap(E, S, B(sf), aut, unless=B(un)))
        acc.count('trap_unless_calls')
        if subsets is None:
            continue
        ref = gfp_kt(lambda X: (sf & CP(X)) | un)
        if got != ref:
            acc.violation('trap_unless_not_greatest_fixpoint', rcase,
                          detail=dict(vars=gm.svars, safe=sorted(sf),
                                      unless=sorted(un), got=sorted(got),
                                      ref=sorted(ref)))
            break
    # --- existential image and descendants (component action only)
    succ = {s: set() for s in states}
    for s in states:
        for x in gm.xs:
            for y in gm.ys:
                if gm.S(s, x, y):
                    succ[s].add(gm.nxt(s, x, y))

    def image(fs):
        r = set()
        for s in fs:
            r |= succ[s]
        return frozenset(r)
    for fs in (allsets if small else menu):
        got = T(fx.ee_image(B(fs), aut))
        acc.count('image_calls')
        if got != image(fs):
            acc.violation('image_mismatch', rcase, detail=dict(
                vars=gm.svars, source=sorted(fs), got=sorted(got),
                ref=sorted(image(fs))))
            break
    for src, con in itertools.product(menu, menu):
        for future in (True, False):
            got = frozenset(T(fx.descendants(B(src), B(con), aut,
                                             future=future)))
            acc.count('descendants_calls')
            seed_ = image(src) if future else src
            # lower bound: constrained reachability from the seed
            low = lfp_iter(lambda X: (X | (seed_ & con) |
                                      (image(X) & con)))
            # upper bound: reachability along paths that stay inside the
            # constraint after the seed (a seed state outside the
            # constraint may still pass on its successors, as the
            # documented loop does in its first round) - NOT plain
            # reachability clipped to the constraint, which would contain
            # states only reachable by leaving the constraint
            start = (seed_ | image(seed_)) & con
            up = lfp_iter(lambda X: X | start | (image(X) & con))
            probs = []
            if not got <= con:
                probs.append('outside_constraint')
            if not (image(got) & con) <= got:
                probs.append('not_closed')
            if not low <= got:
                probs.append('misses_constrained_descendants')
            if not got <= up:
                probs.append('contains_unreachable')
            if probs:
                acc.violation('descendants_' + probs[0], rcase, detail=dict(
                    vars=gm.svars, source=sorted(src), constrain=sorted(con),
                    future=future, got=sorted(got), low=sorted(low),
                    up=sorted(up), problems=probs))
                return
