"""C17 - results do not depend on back end, translator, order or history."""
import gc
import itertools

from vlib import fmodel as fm
from vlib import readout as ro

ID = 'C17'
LEVEL = 'model_checking'
RULE = ('operation-sequence exploration on a fresh Automaton per sequence (a '
        'state is the event history that reaches it). (a) general alphabet '
        '(declare 3 further variables, add 6 formulas, exist / forall / let '
        'on the newest result, to_expr, reorder reversed / sifting, collect '
        'garbage, copy to a second context and back, solve and synthesize a '
        'small game in the same automaton, repeat the previous operation, declare again with identical and with conflicting hints - refused, or in force afterwards; define operators and try to define them again): '
        'ALL sequences up to length 3 (2 with the iterative translator; thorough 4). (b) expression-cache '
        'alphabet (init[k] := string A / string B, overwrite with TRUE, '
        'delete, drop results, collect garbage, reorder, store a freshly '
        'computed BDD under another key, print): ALL sequences up to length 5 (thorough 6). '
        'Each on 2 back ends x 2 prefix translators. After the last event '
        '(every prefix is itself a sequence): every live result\'s read-out '
        'table = the reference table stored at creation; a repeated '
        'operation = the first answer; every "init[..] = <expr>" / '
        '"action[..] = <expr>" line of str(aut) evaluates to the table of '
        'the BDD it labels. states = distinct (declared variables, result '
        'tables); transitions = events executed; non-trivial = sequence '
        'with a history-changing event before an observation')
ASSUMPTIONS = ['dd trusted', 'reference tables from the independent '
               'evaluator; printed expressions parsed by the reference parser']
CASE_TIMEOUT = 120
BASE = dict(x=(0, 2), y=(-1, 1), b='bool')
FORMULAS = ["x = 1", "y < 0 /\\ b", "x + y >= 1", "b <=> (x > y)",
            "((x + 1) + ite(y < 1, 1, 2)) = 3", "x' = x + 1 /\\ ~ b'"]
DECLS = [dict(z=(0, 5)), dict(c='bool'), dict(w=(-3, -1))]
GEN = (['D0', 'D1', 'D2'] + ['A%d' % i for i in range(6)] +
       ['QE', 'QA', 'LET', 'TOEXPR', 'RREV', 'RSIFT', 'GC', 'COPY', 'GAME',
        'REPEAT', 'RC', 'OPDEF'])
CACHE = ['SA', 'SB', 'TRUE', 'DEL', 'DROP', 'GC', 'RREV', 'NEW1', 'NEW2',
         'PRINT']
CONFIGS = [('cudd', 'rec'), ('cudd', 'iter'), ('autoref', 'rec'),
           ('autoref', 'iter')]


def shards(tier, seed):
    out = []
    L = 4 if tier == 'thorough' else 3
    for cfg in CONFIGS:
        for first in GEN:
            # the translator only matters where formulas are added: the
            # iterative one gets one level less in the quick tier
            Lc_ = L - 1 if (cfg[1] == 'iter' and tier != 'thorough') else L
            out.append(dict(kind='gen', first=[first], L=1, cfg=list(cfg)))
            if Lc_ >= 2:
                for second in GEN:
                    out.append(dict(kind='gen', first=[first, second],
                                    L=Lc_ - 1, cfg=list(cfg)))
    Lc = 6 if tier == 'thorough' else 5
    for cfg in CONFIGS:
        if tier != 'thorough' and cfg[1] == 'iter':
            continue
        for a, b in itertools.product(CACHE, CACHE):
            if a not in ('SA', 'SB'):
                continue     # nothing to observe before a string is stored
            out.append(dict(kind='cache', first=[a, b], L=Lc, cfg=list(cfg)))
            if tier != 'thorough':
                # one level deeper where a collection follows at once
                # (freed node numbers are reused by what comes next)
                out.append(dict(kind='cache', first=[a, b, 'GC'], L=Lc + 1,
                                cfg=list(cfg), exact=True))
    return out


def cases(shard):
    if shard['kind'] == 'gen':
        yield dict(kind='gen', seq=list(shard['first']), cfg=shard['cfg'])
        for n in range(1, shard['L']):
            for rest in itertools.product(GEN, repeat=n):
                yield dict(kind='gen', seq=list(shard['first']) + list(rest),
                           cfg=shard['cfg'])
    else:
        lens = range(0, shard['L'] - 1)
        if shard.get('exact'):
            lens = [shard['L'] - len(shard['first'])]
        for n in lens:
            for rest in itertools.product(CACHE, repeat=n):
                seq = shard['first'] + list(rest)
                # only sequences that end in an observation
                if seq[-1] != 'PRINT':
                    continue
                yield dict(kind='cache', seq=seq, cfg=shard['cfg'])


class St:
    def __init__(self, cfg):
        import omega.symbolic.temporal as trl
        self.cfg = cfg
        aut = trl.Automaton()
        if cfg[0] == 'autoref':
            import dd.autoref
            aut.bdd = dd.autoref.BDD()
        aut.declare_variables(**BASE)
        self.aut = aut
        self.decl = dict(BASE)
        self.results = []    # dicts: u, names, ref, how
        self.last = None
        self.strings = {}    # key -> expression string stored in init
        self.n_events = 0

    def names_for(self, formula):
        toks = set(fm.tokenize(formula))
        out = []
        for v in sorted(self.decl):
            if v in toks:
                out.append(v)
                if (v + "'") in formula:
                    out.append(v + "'")
        return out

    def ref_table(self, formula, names):
        ranges = {n: ro.rep_range(self.decl[n.rstrip("'")]) for n in names}
        t, undef = fm.truth_table(fm.Model(ranges), fm.parse(formula), names)
        assert not undef
        return t


def ev_add(st, i):
    f = FORMULAS[i]
    u = st.aut.add_expr(f)
    names = st.names_for(f)
    st.results.append(dict(u=u, names=names, ref=st.ref_table(f, names),
                           how='add ' + f))
    return u


def _newest(st, need_var=False):
    if not st.results or (need_var and not st.results[-1]['names']):
        ev_add(st, 2)
    return st.results[-1]


def _quant(st, kind):
    r = _newest(st, need_var=True)
    v = r['names'][0]
    i = 0
    u = (st.aut.exist if kind == 'E' else st.aut.forall)({v}, r['u'])
    names = r['names'][1:]
    groups = {}
    for row in itertools.product(*[ro.rep_range(st.decl[n.rstrip("'")])
                                   for n in r['names']]):
        groups.setdefault(row[1:], []).append(row in r['ref'])
    agg = any if kind == 'E' else all
    ref = {k for k, vals in groups.items() if agg(vals)}
    st.results.append(dict(u=u, names=names, ref=ref,
                           how=f'{kind} {v}: ' + r['how']))
    return u


def ev_let(st):
    r = _newest(st, need_var=True)
    v = r['names'][0]
    val = ro.rep_range(st.decl[v.rstrip("'")])[-1]
    u = st.aut.let({v: val}, r['u'])
    ref = {row[1:] for row in r['ref'] if row[0] == val}
    st.results.append(dict(u=u, names=r['names'][1:], ref=ref,
                           how=f'let {v}={val}: ' + r['how']))
    return u


def ev_toexpr(st):
    r = _newest(st)
    aut = st.aut
    ints = [n for n in r['names'] if st.decl[n.rstrip("'")] != 'bool']
    if len(ints) != len(r['names']) or r['u'] in (aut.true, aut.false):
        # to_expr needs integer-valued support and a non-constant predicate
        return ev_add(st, 0) if not st.results else None
    s = aut.to_expr(r['u'], comment=False)
    u = aut.add_expr(s)
    st.results.append(dict(u=u, names=r['names'], ref=r['ref'],
                           how='reparse of to_expr: ' + r['how']))
    return s


def ev_reorder(st, how):
    bdd = st.aut.bdd
    mod = __import__('dd.' + st.cfg[0], fromlist=['reorder'])
    if how == 'rev':
        order = [bdd.var_at_level(i) for i in range(len(bdd.vars))]
        mod.reorder(bdd, {v: i for i, v in enumerate(reversed(order))})
    else:
        mod.reorder(bdd)
    return None


def ev_gc(st):
    gc.collect()
    bdd = st.aut.bdd
    if hasattr(bdd, 'collect_garbage'):
        bdd.collect_garbage()
    else:
        # CUDD collects on reordering
        import dd.cudd
        dd.cudd.reorder(bdd)
    return None


def ev_copy(st):
    import omega.symbolic.fol as fol
    r = _newest(st, need_var=True)
    other = fol.Context()
    if st.cfg[0] == 'autoref':
        import dd.autoref
        other.bdd = dd.autoref.BDD()
    other.declare(**{n: st.decl[n.rstrip("'")] for n in reversed(r['names'])})
    v = st.aut.copy(r['u'], other)
    t = ro.Reader(other, r['names']).table(v) if r['names'] else (
        {()} if v == other.true else set())
    if t != r['ref']:
        raise AssertionError(('copy differs', r['how']))
    back = other.copy(v, st.aut)
    st.results.append(dict(u=back, names=r['names'], ref=r['ref'],
                           how='copy round trip: ' + r['how']))
    return back


def ev_game(st):
    from omega.games import gr1
    import io
    import contextlib
    aut = st.aut
    aut.varlist = dict(env=['b'], sys=['x'])
    aut.init['env'] = aut.true
    aut.init['sys'] = aut.true
    aut.action['env'] = aut.true
    aut.action['sys'] = aut.add_expr("(x' = x + 1) \\/ (x' = 0)")
    aut.win['<>[]'] = [aut.false]
    aut.win['[]<>'] = [aut.add_expr('x = 2')]
    aut.moore, aut.plus_one, aut.qinit = True, True, r'\A \A'
    z, yij, xijk = gr1.solve_streett_game(aut)
    zt = ro.Reader(aut, ['x']).table(z)
    if zt != {(0,), (1,), (2,), (3,)}:
        raise AssertionError(('game region differs', sorted(zt)))
    with contextlib.redirect_stdout(io.StringIO()):
        gr1.make_streett_transducer(z, yij, xijk, aut)
    st.decl['_goal'] = (0, 0)
    return z


def ev_redeclare(st):
    """Declare again: identical hints are accepted; a call that also
    carries a DIFFERENT hint for a declared variable is either refused
    (ValueError) or, if accepted, in force afterwards."""
    aut = st.aut
    aut.declare_variables(x=BASE['x'], b='bool')      # identical: accepted
    for d in (dict(x=(0, 9), y=BASE['y']), dict(y=BASE['y'], x=(0, 9)),
              dict(b='bool', y=(-9, 1)),
              # other hints that need the same bits as the declared ones
              dict(x=(0, 3), b='bool'), dict(b='bool', y=(-2, 1)),
              dict(x=(1, 2))):
        try:
            aut.declare_variables(**d)
        except (ValueError, AssertionError, TypeError):
            continue      # refused (the pristine tree raises ValueError)
        # accepted: then it must be what the context now means
        for v, h in d.items():
            if h == 'bool':
                continue
            u = aut.add_expr(f'{v} = {h[0]}') | aut.add_expr(f'{v} = {h[1]}')
            if aut.count(u) != (1 if h[0] == h[1] else 2):
                raise AssertionError(
                    f'declare({d}) was accepted, but {v} cannot take the '
                    f'bounds of {h} afterwards: the context kept the old '
                    'declaration without refusing the new one')
            # ... and what the type-hint queries answer
            th = aut.add_expr(aut.type_hint_for([v]))
            if th != aut.add_expr(f'({h[0]} <= {v}) /\\ ({v} <= {h[1]})'):
                raise AssertionError(
                    f'declare({d}) was accepted, but type_hint_for({v}) '
                    f'still answers for another hint than {h}')
            st.decl[v] = h
    return None


def ev_define(st):
    """Registered operators: defined once; an attempt to define one again
    (differently) is refused or at least changes nothing; the formula that
    uses them means the same before and after."""
    aut = st.aut
    if not getattr(st, 'defined', False):
        aut.define("pos == x > 0\nboth == pos /\\ b")
        st.defined = True
    u1 = aut.add_expr('both \\/ (y = 1)', with_ops=True)
    names = ['b', 'x', 'y']
    ref = st.ref_table('((x > 0) /\\ b) \\/ (y = 1)', names)
    if ro.Reader(aut, names).table(u1) != ref:
        raise AssertionError('formula over defined operators differs from '
                             'its expansion')
    for d in ('pos == x < 1', 'both == ~ b'):
        try:
            aut.define(d)
        except (ValueError, AssertionError, TypeError):
            pass
    u2 = aut.add_expr('both \\/ (y = 1)', with_ops=True)
    if u2 != u1:
        raise AssertionError(
            'the same formula over registered operators changed its '
            'meaning after an attempt to define an operator again')
    st.results.append(dict(u=u1, names=names, ref=ref, how='defined ops'))
    return u1


def run_event(st, e):
    st.n_events += 1
    if e[0] == 'D':
        d = DECLS[int(e[1])]
        st.aut.declare_variables(**d)
        st.decl.update(d)
        return None
    if e[0] == 'A':
        return ev_add(st, int(e[1]))
    if e == 'QE':
        return _quant(st, 'E')
    if e == 'QA':
        return _quant(st, 'A')
    if e == 'LET':
        return ev_let(st)
    if e == 'TOEXPR':
        return ev_toexpr(st)
    if e == 'RREV':
        return ev_reorder(st, 'rev')
    if e == 'RSIFT':
        return ev_reorder(st, 'sift')
    if e == 'GC':
        return ev_gc(st)
    if e == 'COPY':
        return ev_copy(st)
    if e == 'GAME':
        return ev_game(st)
    if e == 'RC':
        return ev_redeclare(st)
    if e == 'OPDEF':
        return ev_define(st)
    raise ValueError(e)


def check_results(st, case, acc):
    aut = st.aut
    for r in st.results:
        if r['names']:
            t = ro.Reader(aut, r['names']).table(r['u'])
        else:
            t = {()} if r['u'] == aut.true else set()
            if r['u'] not in (aut.true, aut.false):
                t = None
        if t != r['ref']:
            acc.violation('earlier_result_changed_meaning', case, detail=dict(
                result=r['how'], vars=r['names'],
                now=sorted(t, key=repr)[:6] if t is not None else None,
                at_creation=sorted(r['ref'], key=repr)[:6]))
            return False
    return True


def check_print(st, case, acc):
    aut = st.aut
    text = str(aut)
    ok = True
    for line in text.split('\n'):
        for kind, table in (('init', aut.init), ('action', aut.action)):
            pre = kind + '['
            if not line.startswith(pre) or '] = ' not in line:
                continue
            key, e = line[len(pre):].split('] = ', 1)
            if e.startswith('@') or e.startswith('<'):
                continue   # a node reference, not an expression
            u = table[key]
            names = st.names_for(e)
            try:
                ref = st.ref_table(e, names)
            except Exception as exc:  # noqa
                acc.violation('printed_expression_not_evaluable', case,
                              detail=dict(line=line, error=repr(exc)[:200]))
                return False
            supp = aut.support(u)
            rn = sorted(set(names) | set(supp))
            if rn != names:
                ref = None
            t = ro.Reader(aut, rn).table(u) if rn else (
                {()} if u == aut.true else set())
            if ref is None or t != ref:
                acc.violation('printed_expression_differs_from_bdd', case,
                              detail=dict(line=line, key=key, vars=rn,
                                          bdd_table=sorted(t, key=repr)[:8]))
                return False
    return ok


def run_case(case, acc):
    from vlib.props import c06
    if not c06.set_translator(case['cfg'][1]):
        acc.count('skipped_translator_seam_missing')
        return
    try:
        if case['kind'] == 'gen':
            run_gen(case, acc)
        else:
            run_cache(case, acc)
    finally:
        c06.set_translator('rec')


HISTORY = {'D0', 'D1', 'D2', 'TOEXPR', 'RREV', 'RSIFT', 'GC', 'GAME', 'COPY'}


def run_gen(case, acc):
    st = St(case['cfg'])
    seq = case['seq']
    prev = None
    first_answer = None
    for e in seq:
        if e == 'REPEAT':
            if prev is None or prev in ('REPEAT',):
                continue
            n_before = len(st.results)
            again = run_event(st, prev)
            if prev[0] == 'A' or prev in ('QE', 'QA', 'LET', 'TOEXPR'):
                # the same operation on the same operand
                pass
            if prev[0] == 'A' and again != first_answer:
                acc.violation('repeated_operation_differs', case,
                              detail=dict(event=prev))
                return
            continue
        first_answer = run_event(st, e)
        prev = e
    ok = check_results(st, case, acc) and check_print(st, case, acc)
    nontrivial = any(e in HISTORY for e in seq[:-1]) and bool(st.results)
    key = tuple(sorted(st.decl)), tuple(
        (tuple(r['names']), tuple(sorted(r['ref'], key=repr)))
        for r in st.results)
    acc.ev(dict(s=seq, c=case['cfg']), nontrivial=nontrivial)
    acc.count('transitions', st.n_events)
    acc.add_to_set('states', repr(key))
    acc.count('traces_validated_against_impl')


_STATES = set()
SA, SB = "x = 1", "y < 0 /\\ b"


def run_cache(case, acc):
    st = St(case['cfg'])
    aut = st.aut
    keep = []
    for e in case['seq']:
        st.n_events += 1
        if e == 'SA':
            aut.init['k'] = SA
        elif e == 'SB':
            aut.init['k'] = SB
        elif e == 'TRUE':
            aut.init['k'] = aut.true
        elif e == 'DEL':
            aut.init.pop('k', None)
        elif e == 'DROP':
            keep.clear()
            st.results.clear()
        elif e == 'GC':
            ev_gc(st)
        elif e == 'RREV':
            ev_reorder(st, 'rev')
        elif e in ('NEW1', 'NEW2'):
            # a BDD computed by operations (not entered as a string),
            # stored under another key
            f = "x = 2" if e == 'NEW1' else "(y = 1) \\/ ~ b"
            rd = ro.Reader(aut, st.names_for(f))
            u = rd.from_rows(sorted(st.ref_table(f, st.names_for(f)),
                                    key=repr))
            aut.init['m' if e == 'NEW1' else 'n'] = u
            keep.append(u)
            st.results.append(dict(u=u, names=st.names_for(f),
                                   ref=st.ref_table(f, st.names_for(f)),
                                   how='computed ' + f))
        elif e == 'PRINT':
            if not check_print(st, case, acc):
                acc.ev()
                return
    check_results(st, case, acc)
    acc.add_to_set('states', repr((sorted(aut.init), [
        (tuple(r['names']), tuple(sorted(r['ref'], key=repr)))
        for r in st.results])))
    acc.ev(dict(s=case['seq'], c=case['cfg']),
           nontrivial=any(x in ('GC', 'RREV', 'DROP', 'DEL', 'TRUE')
                          for x in case['seq']))
    acc.count('transitions', st.n_events)
    acc.count('traces_validated_against_impl')
