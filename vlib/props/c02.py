"""C02 - Streett(1) implementation realizes the specification in closed loop."""
from vlib import families as fam
from vlib.props import _closedloop as cl

ID = 'C02'
LEVEL = 'model_checking'
RULE = ('for every game of families A/B with non-empty region and initial '
        'conditions chosen (rotating over the 4 qinit forms and the init '
        'menus) such that is_realizable holds: make_streett_transducer, then '
        'the explicit product env x impl over full bit ranges: all reachable '
        'states, all transitions, all SCCs. Invariants: impl refines the '
        'component action (mode\'s causality rule) at every state; counter '
        'in range; no reachable blocked state (Mealy: for every x\'; Moore: '
        'one choice for all x\'); Moore independence of x\'; initial states '
        'winning per reference solver with counter 0; Streett fair-cycle '
        'criterion on SCCs. non-trivial = more than one reachable state and '
        'at least one transition; distinct = (game, mode, qinit, inits)')
ASSUMPTIONS = ['dd trusted', 'reference winning region from arena/Zielonka',
               'fair-cycle criterion on SCCs (self-tested against spin)']


def shards(tier, seed):
    return cl.shards(tier, seed)


def scope(tier, seed):
    return fam.scope_text('quick', seed)


def cases(shard):
    return cl.cases(shard, rabin=False)


def run_case(case, acc):
    cl.run_case(case, acc, rabin=False, pid=ID)
