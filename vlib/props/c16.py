"""C16 - parsing follows documented precedence; print/re-parse identity;
GR(1) splitting."""
import itertools
import re

from vlib import fmodel as fm

ID = 'C16'
LEVEL = 'exploration'
RULE = ('precedence/associativity table read from doc/doc.md at run time; '
        'ALL ordered pairs of binary operator spellings in "a op1 b op2 c" '
        '(plain and with parentheses at both positions), all triples of one '
        'representative per level (thorough: all triples of spellings and all quadruples of level representatives), every prefix operator against every '
        'binary operator on either side, postfix prime against prefix and '
        'binary operators, prefix pairs, alternative spellings, quantifier / '
        'LET / IF extents, comments and line breaks at every token boundary '
        'of a base menu; omega.logic.lexyacc tree vs. a precedence-climbing '
        'parser generated from the table (tree equality modulo the '
        'documented spelling classes), parse(flatten(t)) = t; split_gr1 on '
        'all permutations of conjunctions assembled from menus of init, [], '
        '[]<> and Streett-pair conjuncts and on a menu of shapes outside '
        'the fragment. non-trivial = expression with >= 2 operators; '
        'distinct = token string')
ASSUMPTIONS = [
    'spellings the table omits are placed with their documented synonyms '
    '(&& with &, || with |, < with <=, \\in with the comparators)',
    'the reference parser implements the yacc meaning of a precedence '
    'table: a prefix operator takes the longest operand of higher '
    'precedence']
CASE_TIMEOUT = 60
DOC = None


def doc_levels():
    """Parse the precedence table of doc/doc.md."""
    import os
    from vlib import runner
    path = os.path.join(runner.SRC, 'doc', 'doc.md')
    text = open(path).read()
    sec = text.split('The token precedence (lowest to highest)')[1]
    sec = sec.split('Comments start at')[0]
    levels = []
    for line in sec.splitlines():
        m = re.match(r'- (.*) \((l|r|n)\)\s*$', line.strip())
        if m:
            toks = re.findall(r'`([^`]+)`', m.group(1))
            levels.append((toks, m.group(2)))
    # synonyms the table omits
    for toks, _ in levels:
        if '&' in toks and '&&' not in toks:
            toks.append('&&')
        if '|' in toks and '||' not in toks:
            toks.append('||')
        if '<=' in toks:
            for t in ('<', '\\in'):
                if t not in toks:
                    toks.append(t)
    return levels


def tables():
    levels = doc_levels()
    binprec, assoc, preprec = fm.level_tables(levels)
    return levels, binprec, assoc, preprec


def shards(tier, seed):
    out = [dict(kind=k) for k in
           ('pairs', 'pairs_paren', 'triples', 'prefix', 'postfix',
            'extents', 'comments', 'flatten', 'split', 'splitseq',
            'nonsplit')]
    if tier == 'thorough':
        levels, binprec, assoc, preprec = tables()
        bins = [t for t in binprec if t != '\\in']
        for o1 in bins:
            out.append(dict(kind='alltriples', first=o1))
        reps = _reps(levels, binprec)
        for o1 in reps:
            out.append(dict(kind='quads', first=o1))
    return out


def _reps(levels, binprec):
    reps = []
    for toks, a in levels:
        ts = [t for t in toks if t in binprec and t != '\\in']
        if ts:
            reps.append(ts[0])
    return reps


def _bin_ops(binprec):
    return [t for t in binprec]


def cases(shard):
    levels, binprec, assoc, preprec = tables()
    bins = _bin_ops(binprec)
    pres = sorted(preprec)
    k = shard['kind']

    def rhs(op, name):
        return ['1', '..', '2'] if op == '\\in' else [name]
    if k == 'alltriples':
        b2 = [t for t in bins if t != '\\in']
        for o2, o3 in itertools.product(b2, repeat=2):
            yield dict(kind='tok', toks=['a', shard['first'], 'b', o2, 'c',
                                         o3, 'd'])
        return
    if k == 'quads':
        reps = _reps(levels, binprec)
        for o2, o3, o4 in itertools.product(reps, repeat=3):
            yield dict(kind='tok', toks=['a', shard['first'], 'b', o2, 'c',
                                         o3, 'd', o4, 'e'])
        return
    if k == 'pairs':
        for o1, o2 in itertools.product(bins, repeat=2):
            if o1 == '\\in' and binprec[o2] > binprec[o1]:
                continue   # `1 .. 2 + c` is not a range of the grammar
            yield dict(kind='tok', toks=['a', o1] + rhs(o1, 'b') + [o2] +
                       rhs(o2, 'c'))
    elif k == 'pairs_paren':
        for o1, o2 in itertools.product(bins, repeat=2):
            if '\\in' in (o1, o2):
                continue
            yield dict(kind='tok', toks=['(', 'a', o1, 'b', ')', o2, 'c'])
            yield dict(kind='tok', toks=['a', o1, '(', 'b', o2, 'c', ')'])
    elif k == 'triples':
        reps = []
        for toks, a in levels:
            ts = [t for t in toks if t in binprec and t != '\\in']
            if ts:
                reps.append(ts[0])
        for o1, o2, o3 in itertools.product(reps, repeat=3):
            yield dict(kind='tok', toks=['a', o1, 'b', o2, 'c', o3, 'd'])
    elif k == 'prefix':
        for pr in pres:
            for o in bins:
                if o == '\\in':
                    continue
                yield dict(kind='tok', toks=[pr, 'a', o, 'b'])
                yield dict(kind='tok', toks=['a', o, pr, 'b'])
                yield dict(kind='tok', toks=['a', o, pr, 'b', o, 'c'])
            for pr2 in pres:
                yield dict(kind='tok', toks=[pr, pr2, 'a'])
                yield dict(kind='tok', toks=[pr, pr2, 'a', '/\\', 'b'])
    elif k == 'postfix':
        for pr in pres:
            yield dict(kind='tok', toks=[pr, 'a', "'"])
            yield dict(kind='tok', toks=[pr, '(', 'a', '/\\', 'b', ')', "'"])
        for o in bins:
            if o == '\\in':
                continue
            yield dict(kind='tok', toks=['a', "'", o, 'b'])
            yield dict(kind='tok', toks=['a', o, 'b', "'"])
            yield dict(kind='tok', toks=['(', 'a', o, 'b', ')', "'"])
            for pr in pres:
                yield dict(kind='tok', toks=[pr, 'a', "'", o, 'b'])
    elif k == 'extents':
        for s in EXTENTS:
            yield dict(kind='str', s=s)
    elif k == 'comments':
        for s in COMMENT_BASE:
            toks = fm.tokenize(s)
            for i in range(len(toks) + 1):
                for ins in ('(* note *)', '\n', '\\* line comment\n',
                            '(* multi\nline *)', '  \t ', '(* 2 * x *)',
                            '(***** safety *****)', '(***)', '(**)',
                            '(* a ) b ( *)', '\\* x (* y\n'):
                    t2 = toks[:i] + [ins] + toks[i:]
                    yield dict(kind='comment', base=s, s=' '.join(t2))
    elif k == 'flatten':
        for o1, o2 in itertools.product(bins, repeat=2):
            if o1 == '\\in' and binprec[o2] > binprec[o1]:
                continue
            yield dict(kind='flatten', toks=['a', o1] + rhs(o1, 'b') + [o2] +
                       rhs(o2, 'c'))
        for pr in pres:
            for o in bins:
                if o != '\\in':
                    yield dict(kind='flatten', toks=[pr, 'a', o, 'b', "'"])
        # explicit groupings (also AGAINST the precedence) and prefix /
        # postfix operators over infix operands on either side of every
        # binary operator
        for o1, o2 in itertools.product(bins, repeat=2):
            if '\\in' in (o1, o2):
                continue
            yield dict(kind='flatten', toks=['(', 'a', o1, 'b', ')', o2, 'c'])
            yield dict(kind='flatten', toks=['a', o1, '(', 'b', o2, 'c', ')'])
        for pr in pres:
            for o in bins:
                if o == '\\in':
                    continue
                for oi in ('/\\', '+', 'U', '='):
                    inner = ['(', pr, '(', 'a', oi, 'b', ')', ')']
                    yield dict(kind='flatten', toks=inner + [o, 'c'])
                    yield dict(kind='flatten', toks=['c', o] + inner)
                yield dict(kind='flatten', toks=['(', pr, 'a', ')', o, 'c'])
                yield dict(kind='flatten', toks=['c', o, '(', pr, 'a', ')'])
                yield dict(kind='flatten',
                           toks=['(', 'a', '/\\', 'b', ')', "'", o, 'c'])
        for s in EXTENTS:
            yield dict(kind='flatten', s=s)
    elif k == 'split':
        yield from split_cases()
    elif k == 'splitseq':
        yield from splitseq_cases()
    elif k == 'nonsplit':
        for s, why in NON_GR1:
            yield dict(kind='nonsplit', s=s, why=why)


EXTENTS = [
    "\\A x: a /\\ b", "a /\\ \\E x: b \\/ c", "\\A x, y: \\E z: a => b",
    "(\\A x: a) /\\ b", "\\E x': x' = y + 1", "~ \\A x: a \\/ b",
    "IF a THEN b ELSE c /\\ d", "IF a THEN b ELSE c + 1 = d",
    "(IF a THEN b ELSE c) /\\ d", "e \\/ IF a THEN b ELSE c",
    "ite(a, b, c) + 1 = d", "ite(a /\\ b, c \\/ d, e => f)",
    "LET f == a /\\ b IN f \\/ c", "LET f == a g == f + 1 IN g = 2 /\\ c",
    "(LET f == a IN f \\/ c) /\\ b", "(LET f == x + 1 IN f < 3) => b",
    "~ (LET f == a IN f)", "b \\/ (LET f == a IN f /\\ c)",
    "(LET f == x IN f + 1) = y", "((\\E x: a) => b) /\\ c",
    "(\\A x: a) \\/ b", "[] (\\A x: a /\\ b)",
    "(IF a THEN b ELSE c) => d", "ite(a, LET f == b IN f, c)",
    "c /\\ LET f == a IN f \\/ d", "x \\in 1 .. 3 /\\ y \\in -2 .. -1",
    "x + 1 \\in 0 .. 2", "a = -1", "a - 1 = b", "a - -1 = b", "a <= -3 + 2",
    "-X a S b", "--X a /\\ -X b", "-[] a => -<> b", "[] <> a", "<> [] a",
    "[] a U b", "a U b U c", "a S b T c", "X a U b",
    "a' = a + 1", "(a + b)' = c", "~ a' /\\ b", "x' \\in 0 .. 1",
    "TRUE /\\ false", "True => FALSE", "a ^ b ^ c", "a <-> b -> c",
    "a || b && c", "a | b & c", "! a && b", "a != b", "a /= b", "a # b",
    "a =< b", "a >= b + c * d", "a * b + c", "a / b % c", "a % b * c",
    "a + b - c", "a - b + c", "a - (b + c)",
]
COMMENT_BASE = ["a /\\ b => c", "[] (x' = x + 1) /\\ ~ p",
                "\\A x: x \\in 0 .. 3 => y >= x", "a S b \\/ -X c"]
NON_GR1 = [
    ("[]<>a \\/ []<>b", 'disjunction of recurrence conjunctions'),
    ("[]<> a /\\ (<>[] p \\/ []<> q)",
     'recurrence conjunct beside a Streett pair'),
    ("[]<> a /\\ <>[] p", 'recurrence and persistence conjoined'),
    ("<>[] p /\\ []<> a", 'persistence and recurrence conjoined'),
    ("(<>[] p \\/ []<> q) /\\ (<>[] r \\/ []<> s)", 'two Streett pairs'),
    ("<>[] p /\\ <>[] q", 'two persistence conjuncts'),
    ("<> a", 'bare eventually'), ("[] [] a", 'nested always'),
    ("[] (a /\\ <> b)", 'eventually under always'),
    ("[]<> [] a", 'always under recurrence'),
    ("[]<>(a /\\ X b)", 'next under recurrence'),
    ("a /\\ X b", 'next in initial condition'),
    ("~ [] a", 'negated always'), ("[] a => [] b", 'implication of always'),
    ("[]<> a => []<> b", 'implication of recurrences'),
    ("<>[] (a /\\ <> b) \\/ []<> c", 'eventually under persistence'),
    ("[]<>a \\/ ([]<>b /\\ []<>c)", 'two recurrence disjuncts'),
    ("<>[] p \\/ []<> q \\/ []<> r", 'two recurrence disjuncts in a pair'),
    ("<>[] (x' = x)", 'primed variable under persistence'),
    ("<>[] (x' = x) \\/ []<> q", 'primed variable under persistence'),
    ("<>[] (X p)", 'next under persistence'),
    ("<>[] (p /\\ X q) \\/ []<> r", 'next under persistence'),
    ("[]<> (x' = x)", 'primed variable under recurrence'),
    ("[]<> (X p)", 'next under recurrence'),
    ("a /\\ (x' = 1)", 'primed variable in initial condition'),
    ("<>[] p \\/ []<> (q /\\ r')", 'primed variable under recurrence'),
]
INIT_MENU = ["x > 0", "y + 1 < 2", "p"]
ACT_MENU = ["[] (x' = x + 1)", "[] ((X y) > 0 /\\ p)", "[] (p => q')"]
REC_MENU = ["[]<> (z - x <= 0)", "[]<> (p => q)", "[]<> q"]
PAIR_MENU = ["<>[] p \\/ []<> q", "<>[] p \\/ <>[] (x = 1) \\/ []<> q",
             "<>[] p \\/ ([]<> q /\\ []<> (y < 2))", "<>[] (x > 2)",
             "<>[] p \\/ (<>[] (x = 1) \\/ []<> q)",
             "<>[] p \\/ ([]<> q /\\ ([]<> (y < 2) /\\ []<> p))",
             "(<>[] p \\/ <>[] q) \\/ (<>[] (x = 1) \\/ []<> q)"]


def split_cases():
    # conjunctions without a Streett pair: any recurrence conjuncts
    for ni, na, nr in itertools.product(range(3), range(3), range(3)):
        parts = ([('init', s) for s in INIT_MENU[:ni]] +
                 [('action', s) for s in ACT_MENU[:na]] +
                 [('rec', s) for s in REC_MENU[:nr]])
        if not parts:
            continue
        perms = list(itertools.permutations(parts))
        for perm in perms[:24]:
            for grouping in ('left', 'right', 'balanced', 'commented'):
                yield dict(kind='split', parts=[list(p) for p in perm],
                           grouping=grouping)
    # with one Streett pair (then no separate recurrence conjuncts)
    for pair in PAIR_MENU:
        for ni, na in itertools.product(range(2), range(3)):
            parts = ([('init', s) for s in INIT_MENU[:ni]] +
                     [('action', s) for s in ACT_MENU[:na]] +
                     [('pair', pair)])
            for perm in itertools.permutations(parts):
                for grouping in ('left', 'right', 'commented'):
                    yield dict(kind='split', parts=[list(p) for p in perm],
                               grouping=grouping)


SEQ_SUB = ["(x = 1)", "(p \\/ q)", "(y + 1 < 2)"]
SEQ_MENU = [
    [('action', "[] (S => (X r))")],
    [('action', "[] (S /\\ (x' = x))")],
    [('init', "S"), ('action', "[] (p => q')")],
    [('rec', "[]<> (S => q)")],
    [('init', "S"), ('rec', "[]<> q")],
    [('rec', "[]<> S")],
    [('init', "S")],
    [('action', "[] S")],
    [('pair', "<>[] S \\/ []<> q")],
    [('action', "[] (S => (X r))"), ('init', "S")],
    [('init', "S"), ('action', "[] (S => (X r))")],
    [('rec', "[]<> S"), ('action', "[] (S \\/ (X S))")],
]


def splitseq_cases():
    """Two specifications split one after the other in one process.

    Every ordered pair of menu entries over a shared non-terminal
    subformula: the parts of each must be what they are alone.
    """
    for sub in SEQ_SUB:
        menu = [[(k, t.replace('S', sub)) for k, t in e] for e in SEQ_MENU]
        for a, b in itertools.product(menu, repeat=2):
            yield dict(kind='splitseq',
                       seq=[[list(p) for p in a], [list(p) for p in b]])


_P = {}


def _parsers():
    if not _P:
        import omega.logic.lexyacc as ly
        levels = doc_levels()
        _P['omega'] = ly.Parser()
        _P['ref'] = fm.Parser(levels)
        _P['levels'] = levels
    return _P['omega'], _P['ref']


def _omega_tree(s):
    om, _ = _parsers()
    return fm.from_omega(om.parse(s))


def run_case(case, acc):
    om, ref = _parsers()
    kind = case['kind']
    if kind in ('tok', 'str', 'comment'):
        s = ' '.join(case['toks']) if 'toks' in case else case['s']
        nontriv = len([t for t in fm.tokenize(s)]) >= 5
        acc.ev(s, nontrivial=nontriv)
        try:
            exp = ref.parse(case['base'] if kind == 'comment' else s)
        except SyntaxError as exc:
            acc.violation('reference_parser_error', case, detail=str(exc))
            return
        try:
            got = _omega_tree(s)
        except Exception as exc:  # noqa
            toks = fm.tokenize(s)
            acc.violation('documented_syntax_rejected', case, detail=dict(
                string=s, error=str(exc)[:200]),
                uses_documented_R=('R' in toks))
            return
        if not fm.same_tree(got, exp):
            acc.violation('tree_differs_from_documented_precedence', case,
                          detail=dict(string=s, parsed=fm.show(got),
                                      documented=fm.show(exp)))
        return
    if kind == 'flatten':
        s = ' '.join(case['toks']) if 'toks' in case else case['s']
        acc.ev('f:' + s, nontrivial=True)
        try:
            t1 = om.parse(s)
        except Exception:  # noqa
            acc.count('flatten_skipped_unparsable')
            return
        try:
            flat = t1.flatten()
        except Exception as exc:  # noqa
            acc.violation('flatten_raises', case, detail=dict(
                string=s, error=repr(exc)[:200]), construct=_construct(s))
            return
        try:
            t2 = om.parse(flat)
        except Exception as exc:  # noqa
            acc.violation('flattened_tree_does_not_parse', case,
                          detail=dict(string=s, flattened=flat,
                                      error=str(exc)[:200]),
                          construct=_construct(s))
            return
        if repr(t1) != repr(t2):
            acc.violation('flatten_then_parse_differs', case, detail=dict(
                string=s, flattened=flat, first=repr(t1), second=repr(t2)))
        return
    if kind == 'split':
        return run_split(case, acc)
    if kind == 'splitseq':
        for parts in case['seq']:
            if run_split(case, acc, parts=parts) is False:
                return
        return
    if kind == 'nonsplit':
        import omega.gr1 as gr1
        acc.ev('n:' + case['s'], nontrivial=True)
        try:
            d = gr1.split_gr1(case['s'])
        except (AssertionError, ValueError):
            return
        acc.violation('formula_outside_gr1_fragment_accepted', case,
                      detail=dict(formula=case['s'], why=case['why'],
                                  returned={k: [x.flatten() for x in v]
                                            for k, v in d.items()}),
                      shape=case['why'])


def run_split(case, acc, parts=None):
    import omega.gr1 as gr1
    om, ref = _parsers()
    if parts is None:
        parts = case['parts']
    s = ' /\\ '.join('(' + p + ')' if k in ('pair',) else p
                      for k, p in parts)
    # unparenthesised top-level conjunction needs care with `=>` etc.;
    # the menus only contain conjuncts binding tighter than /\ or in parens
    s = _group(['(' + p + ')' for k, p in parts],
               case.get('grouping', 'left'))
    acc.ev('s:' + s, nontrivial=len(parts) >= 2)
    try:
        d = gr1.split_gr1(s)
    except AssertionError as e:
        if case['kind'] != 'splitseq':
            raise
        acc.violation('split_rejects_gr1_formula_after_another', case,
                      detail=dict(formula=s, error=repr(e)))
        return False
    exp = dict(init=[], action=[], recurrence=[], persistence=[])
    for k, p in parts:
        t = ref.parse(p)
        if k == 'init':
            exp['init'].append(t)
        elif k == 'action':
            exp['action'].append(t[1])
        elif k == 'rec':
            exp['recurrence'].append(t[1][1])
        else:
            for dj in _flat(t, '\\/'):
                if dj[0] == '<>':
                    exp['persistence'].append(dj[1][1])
                else:
                    for c in _flat(dj, '/\\'):
                        exp['recurrence'].append(c[1][1])
    got = {k: [fm.from_omega(x) for x in v] for k, v in d.items()}
    for k in exp:
        a = got.get(k, [])
        if len(a) != len(exp[k]) or not all(
                fm.same_tree(x, y) for x, y in zip(a, exp[k])):
            acc.violation('split_returns_wrong_parts', case, detail=dict(
                formula=s, part=k, got=[fm.show(x) for x in a],
                expected=[fm.show(x) for x in exp[k]]))
            return False


def _group(items, how):
    """Conjunction of `items` nested to the left, right, or balanced."""
    if len(items) == 1:
        return items[0]
    if how == 'left':
        return ' /\\ '.join(items)
    if how == 'commented':
        # one conjunct per line, each followed by a one-line comment,
        # a block comment in front (documented comment forms)
        return '(* spec *) ' + '\n /\\ '.join(
            f'{x}  \\* part {i}' for i, x in enumerate(items)) + '\n'
    if how == 'right':
        return items[0] + ' /\\ (' + _group(items[1:], how) + ')'
    m = len(items) // 2
    return ('(' + _group(items[:m], how) + ') /\\ (' +
            _group(items[m:], how) + ')')


def _construct(s):
    toks = fm.tokenize(s)
    if 'LET' in toks:
        return 'LET'
    if '\\A' in toks or '\\E' in toks:
        return 'quantifier'
    return 'other'


def _flat(t, op):
    if isinstance(t, tuple) and t[0] == op and len(t) == 3:
        return _flat(t[1], op) + _flat(t[2], op)
    return [t]
