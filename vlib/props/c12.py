"""C12 - the enumerated state machine is an input-complete sub-machine."""
import itertools

import networkx as nx

from vlib import families as fam
from vlib import readout as ro
from vlib import synth
from vlib.loop import ClosedLoop, nontrivial_sccs
from vlib.runner import stable_hash
from vlib.families import prime

ID = 'C12'
LEVEL = 'model_checking'
RULE = ('synthesized Streett and Rabin implementations of game families A1, '
        'A2, B1-B5 (environment action not reading the component\'s next '
        'values - the enumerator\'s premise; others counted as skipped) with '
        'initial conditions rotating over the 4 qinit forms, plus hand-made '
        '(init, action) pairs x 4 qinit forms x Moore/Mealy; '
        'games.enumeration.action_to_steps; on the returned graph: one node '
        'per valuation; initial nodes per form; EVERY edge allowed by both '
        'action tables; at EVERY node exactly one edge per next environment '
        'value the environment action allows and none for others; fair-cycle '
        'criterion on all SCCs for synthesized inputs; every edge re-checked '
        'through Context.let on the real BDDs; enumerate_state_machine on closed systems: nodes = reachable valuations, edges = all action steps. non-trivial = graph with >= 2 '
        'nodes; distinct = case description')
ASSUMPTIONS = ['dd trusted', 'implementations that block (finding F13) are '
               'skipped and counted']
CASE_TIMEOUT = 120


def shards(tier, seed):
    out = []
    for sh in fam.game_shards('quick', seed):
        if sh['fam'] in ('A3', 'B6', 'B7'):
            continue
        if sh['backend'] == 'autoref' and tier != 'thorough':
            continue
        for rabin in (False, True):
            s = dict(sh)
            s['kind'] = 'synth'
            s['rabin'] = rabin
            s['deep'] = tier == 'thorough'
            out.append(s)
    for i in range(len(HAND)):
        out.append(dict(kind='hand', i=i))
    for i in range(len(ESM)):
        out.append(dict(kind='esm', i=i))
    return out


def cases(shard):
    if shard['kind'] == 'esm':
        for be in ('cudd', 'autoref'):
            yield dict(kind='esm', i=shard['i'], backend=be)
        return
    if shard['kind'] == 'hand':
        for q in synth.QINITS:
            for moore in (True, False):
                yield dict(kind='hand', i=shard['i'], qinit=q, moore=moore)
                # the same machine registered under swapped role keys: the
                # implementation under 'env', the environment under 'sys'
                yield dict(kind='hand', i=shard['i'], qinit=q, moore=moore,
                           swapped_keys=True)
                # the same automaton enumerated once before, under every
                # form: the second result must not depend on the first
                for prior in synth.QINITS:
                    yield dict(kind='hand', i=shard['i'], qinit=q,
                               moore=moore, prior=prior)
        return
    for c in fam.games(shard, rabin=shard['rabin']):
        h = int(stable_hash(c)[:8], 16)
        if not shard['deep'] and h % 4:
            continue
        combos = synth.init_combos(c)
        by_q = {}
        for q, ei, si in combos:
            by_q.setdefault(q, []).append((q, ei, si))
        q = synth.QINITS[(h // 4) % 4]
        lst = by_q[q]
        d = dict(c)
        d['kind'] = 'synth'
        d['init'] = list(lst[(h // 16) % len(lst)])
        yield d


# hand-made: (env decl, sys decl, EnvInit, SysInit, EnvNext, SysNext)
HAND = [
    ([('x', 'bool')], [('y', 'bool')], "TRUE", "y <=> x", "TRUE",
     "y' <=> ~ y"),
    ([('x', 'bool')], [('y', (0, 2))], "x", "(x => (y \\in 1..2)) /\\ (~ x => (y = 1))",
     "x' <=> ~ x", "(y' = y + 1) \\/ (y' = 0)"),
    ([('x', (0, 2))], [('y', 'bool')], "x <= 1", "~ y", "x' <= 2 /\\ x' # x",
     "y' <=> (x = 2)"),
    ([('x', 'bool')], [('y', (-1, 1))], "~ x", "(x /\\ y = 0) \\/ y = -1",
     "x => x'", "(y' >= -1) /\\ (y' - y <= 1) /\\ (y - y' <= 1)"),
    ([('x', 'bool')], [('y', 'bool'), ('z', 'bool')], "TRUE",
     "(y <=> x) /\\ ~ z", "x' \\/ ~ x", "(y' <=> z) /\\ (z' <=> x)"),
    ([('x', 'bool')], [('y', 'bool')], "x", "x => y", "x' <=> y",
     "y' <=> x'"),
    ([('x', (0, 2))], [('y', (0, 2))], "x = 0", "y = x", "x' = x \\/ x' = y",
     "y' = x' \\/ y' = 0"),
    ([], [('y', (0, 2))], "TRUE", "y < 2", "TRUE", "y' = y + 1 \\/ y' = 0"),
    ([('x', 'bool')], [], "TRUE", "TRUE", "x' # x", "TRUE"),
    ([('x', 'bool')], [('y', (0, 2))], "TRUE", "(y = 3) \\/ (x /\\ y = 0)",
     "TRUE", "y' = y"),
]


# closed systems for enumerate_state_machine: (decl, init, action)
ESM = [
    (dict(x='bool', y=(0, 17)), "x /\\ (y = 1)",
     "((x /\\ (y = 1)) => (~ x' /\\ (y' = 2))) /\\ "
     "((~ x /\\ (y = 2)) => (x' /\\ (y' = 1)))"),
    (dict(y=(0, 2)), "y = 0", "(y' = y + 1) \\/ (y' = 0 /\\ y = 2)"),
    (dict(y=(-3, 2)), "y < -2", "(y' = y + 2) /\\ (y < 2)"),
    (dict(y=(-3, -1)), "y = -1 \\/ y = -4", "y' = y - 1 \\/ y' = y"),
    (dict(p='bool', q='bool'), "p /\\ ~ q", "(p' <=> q) /\\ (q' <=> ~ p)"),
    (dict(p='bool', y=(0, 2)), "y = 3", "p' => (y' = 0)"),
    (dict(p='bool', y=(0, 2)), "~ p", "(y' = y) /\\ (p' <=> ~ p)"),
    (dict(x=(0, 2), y=(-1, 1)), "x = 0 /\\ y = 0",
     "(x' = x + 1 /\\ y' = y) \\/ (x = 3 /\\ x' = 0 /\\ y' = y - 1 "
     "/\\ y > -2)"),
    (dict(y=(0, 2)), "y = 1", "y' # y"),
]


def run_esm(case, acc):
    import omega.symbolic.temporal as trl
    import omega.symbolic.prime as prm
    from omega.games import enumeration as enum
    decl, init_s, act_s = ESM[case['i']]
    aut = trl.Automaton()
    if case['backend'] == 'autoref':
        import dd.autoref
        aut.bdd = dd.autoref.BDD()
    aut.declare_variables(**decl)
    init = aut.add_expr(init_s)
    action = aut.add_expr(act_s)
    g = enum.enumerate_state_machine(init, action, aut)
    vrs = sorted(prm.vars_in_support(init, aut) |
                 prm.vars_in_support(action, aut))
    rd = ro.Reader(aut, vrs)
    I = rd.table(init)
    A = ro.Reader(aut, vrs + [prime(v) for v in vrs]).table(action)
    n = len(vrs)
    succ = {}
    for t in A:
        succ.setdefault(t[:n], set()).add(t[n:])
    R = set(I)
    stack = list(I)
    while stack:
        s = stack.pop()
        for t in succ.get(s, ()):
            if t not in R:
                R.add(t)
                stack.append(t)
    edges = {(s, t) for s in R for t in succ.get(s, ())}
    nodes = {}
    for u, d in g.nodes(data=True):
        if set(d) != set(vrs):
            acc.ev()
            acc.violation('node_has_wrong_variables', case,
                          detail=dict(node=d, expected=vrs))
            return
        nodes[u] = tuple(d[v] for v in vrs)
    acc.ev(dict(c=case), nontrivial=len(R) >= 2)
    acc.count('states', len(g))
    acc.count('transitions', g.number_of_edges())
    acc.count('traces_validated_against_impl', g.number_of_edges())
    if len(set(nodes.values())) != len(nodes):
        acc.violation('two_nodes_with_one_valuation', case,
                      detail=dict(nodes=sorted(nodes.values(), key=repr)))
        return
    if set(nodes.values()) != R:
        acc.violation('enumerated_nodes_differ_from_reachable_states', case,
                      detail=dict(vars=vrs,
                                  extra=sorted(set(nodes.values()) - R),
                                  missing=sorted(R - set(nodes.values()))))
        return
    got = {(nodes[u], nodes[v]) for u, v in g.edges()}
    if got != edges:
        acc.violation('enumerated_edges_differ_from_action_steps', case,
                      detail=dict(vars=vrs, extra=sorted(got - edges)[:4],
                                  missing=sorted(edges - got)[:4]))


def run_case(case, acc):
    if case['kind'] == 'esm':
        return run_esm(case, acc)
    if case['kind'] == 'hand':
        run_hand(case, acc)
    else:
        run_synth(case, acc)


def run_synth(case, acc):
    rabin = bool(case['rabin'])
    q, ei, si = case['init']
    sy = synth.Synth(case, q, ei, si)
    aut, gm = sy.aut, sy.gm
    if not sy.ztab:
        acc.ev()
        acc.count('skipped_empty_region')
        return
    # premise: the environment action does not read the component's next
    # values
    for t in gm.Etab:
        pass
    if _reads_sys_next(gm):
        acc.ev()
        acc.count('skipped_env_reads_component_next_values')
        return
    try:
        real = synth.is_realizable(sy.z, aut)
    except AssertionError:
        real = False
    if not real:
        acc.ev()
        acc.count('skipped_unrealizable')
        return
    try:
        synth.make_transducer(aut, sy.iterates, rabin)
    except AssertionError:
        acc.ev()
        acc.count('skipped_construction_refused')
        return
    mem = synth.memory_vars(rabin)
    cl = ClosedLoop(aut, gm, mem)
    if cl.blocked_states(obliged_only=rabin and not gm.plus_one):
        acc.ev()
        acc.count('skipped_blocking_implementation')
        return
    check_graph(case, acc, aut, gm, cl, 'impl', q, sy.P, sy.G, rabin)


def _reads_sys_next(gm):
    E = gm.Etab
    nsv, ne, ns = len(gm.svars), gm.ne, gm.ns
    for t in E:
        s, x = t[:nsv], t[nsv:nsv + ne]
        for y in gm.ys:
            if (s + x + y) not in E:
                return True
    return False


def run_hand(case, acc):
    import omega.symbolic.temporal as trl
    env, sys_, ei, si, en, sn = HAND[case['i']]
    aut = trl.Automaton()
    aut.declare_variables(**dict(env + sys_))
    ek, ik = ('sys', 'env') if case.get('swapped_keys') else ('env', 'impl')
    aut.varlist = {ek: [v for v, _ in env], ik: [v for v, _ in sys_]}
    aut.init[ek] = aut.add_expr(ei)
    aut.init[ik] = aut.add_expr(si)
    aut.action[ek] = aut.add_expr(en)
    aut.action[ik] = aut.add_expr(sn)
    if not case.get('swapped_keys'):
        aut.varlist['sys'] = [v for v, _ in sys_]
        aut.action['sys'] = aut.action['impl']
    aut.moore = bool(case['moore'])
    aut.plus_one = True
    aut.qinit = case['qinit']
    aut.prime_varlists()
    gcase = dict(env=[[v, h if h == 'bool' else list(h)] for v, h in env],
                 sys=[[v, h if h == 'bool' else list(h)] for v, h in sys_],
                 const=[])
    gm = fam.GameModel(aut, gcase, env_action=aut.action[ek],
                       sys_action=aut.action[ik])
    if aut.moore and _impl_reads_env_next(aut, gm, ik):
        acc.ev()
        acc.count('skipped_moore_with_mealy_action')
        return
    cl = ClosedLoop(aut, gm, [], impl=aut.action[ik],
                    init=aut.init[ik] & aut.init[ek])
    check_graph(case, acc, aut, gm, cl, ik, case['qinit'], None, None,
                False, envname=ek)


def _impl_reads_env_next(aut, gm, ik='impl'):
    supp = aut.support(aut.action[ik])
    return bool(supp & {prime(v) for v in gm.env})


def check_graph(case, acc, aut, gm, cl, sysname, q, P, G, rabin,
                envname='env'):
    from omega.games import enumeration as enum
    if case.get('prior'):
        # only the second result is judged (by the property's own oracle)
        try:
            enum.action_to_steps(aut, envname, sysname, qinit=case['prior'])
        except AssertionError:
            pass
    try:
        g = enum.action_to_steps(aut, envname, sysname, qinit=q)
    except AssertionError as exc:
        if _init_unsatisfiable(aut, gm, cl, q, envname, sysname):
            acc.ev()
            acc.count('skipped_initial_condition_unsatisfiable_in_form')
            return
        raise
    full = cl.full
    ne, ns, nsv = gm.ne, gm.ns, cl.nsv
    nodes = {}
    for u, d in g.nodes(data=True):
        if set(d) != set(full):
            acc.ev()
            acc.violation('node_has_wrong_variables', case, detail=dict(
                node=d, expected=full))
            return
        nodes[u] = tuple(d[v] for v in full)
    acc.count('states', len(g))
    acc.count('transitions', g.number_of_edges())
    acc.ev(dict(c=case), nontrivial=len(g) >= 2)
    if len(set(nodes.values())) != len(nodes):
        acc.violation('two_nodes_with_one_valuation', case, detail=dict(
            nodes=sorted(nodes.values(), key=repr)))
        return
    # ---- initial nodes
    EI = gm.srd.table(aut.init[envname]) if nsv else {()}
    II = cl.frd.table(aut.init[sysname])
    init_nodes = [nodes[u] for u in g.initial_nodes]
    both = {s for s in II if s[:nsv] in EI}
    envpart = lambda s: s[:ne]      # noqa
    comppart = lambda s: s[ne:]     # noqa
    prob = None
    if q == r'\A \A':
        if set(init_nodes) != both:
            prob = 'initial nodes differ from EnvInit /\\ ImplInit'
    elif q == r'\E \E':
        if len(init_nodes) != 1 or init_nodes[0] not in II:
            prob = 'not exactly one initial node in ImplInit'
    elif q == r'\A \E':
        envs = {envpart(s[:nsv]) for s in cl.frd.space()
                if s[:nsv] in EI}
        got = [envpart(s) for s in init_nodes]
        if sorted(got) != sorted(envs):
            prob = 'not one initial node per admitted environment value'
        elif any(s not in II for s in init_nodes):
            prob = 'initial node violates ImplInit'
        elif any(s[:nsv] not in EI for s in init_nodes):
            prob = 'initial node violates EnvInit'
    else:
        comps = {comppart(s) for s in init_nodes}
        envs = {envpart(s[:nsv]) for s in cl.frd.space() if s[:nsv] in EI}
        if len(comps) != 1:
            prob = 'component initial value not unique'
        else:
            (c0,) = comps
            # valid for ALL environment values
            if not all((x + c0) in II for x in gm.xs):
                prob = 'component initial value not valid for every ' \
                       'environment value'
            elif sorted(envpart(s) for s in init_nodes) != sorted(
                    {x for x in gm.xs if (x + c0)[:nsv] in EI}):
                prob = 'not one initial node per admitted environment value'
    if prob:
        acc.violation('initial_nodes_do_not_follow_qinit', case, detail=dict(
            qinit=q, problem=prob, vars=full,
            initial_nodes=sorted(init_nodes, key=repr)))
        return
    # ---- edges and input completeness
    n_checked = 0
    for u in g:
        s = nodes[u]
        sx = s[:nsv]
        out_env = []
        for v in g.successors(u):
            t = nodes[v]
            x, y, m = t[:ne], t[ne:ne + ns], t[nsv:]
            out_env.append(x)
            n_checked += 1
            if not gm.E(sx, x, y):
                acc.violation('edge_violates_environment_action', case,
                              detail=dict(vars=full, source=s, target=t))
                return
            if (x + y + m) not in cl.opts.get(s, set()):
                acc.violation('edge_violates_implementation_action', case,
                              detail=dict(vars=full, source=s, target=t))
                return
            # conformance through omega's own substitution
            d = dict(zip(full, s))
            d.update(zip([prime(k) for k in full], t))
            if aut.let(d, aut.action[sysname]) != aut.true:
                acc.violation('model_trace_not_confirmed_by_impl', case,
                              detail=dict(source=s, target=t))
                return
        exp = sorted(x for x in gm.xs
                     if any(gm.E(sx, x, y) for y in gm.ys))
        if sorted(out_env) != exp:
            acc.violation('node_not_input_complete', case, detail=dict(
                vars=full, node=s, outgoing_env_values=sorted(out_env),
                allowed_env_values=exp))
            return
    acc.count('traces_validated_against_impl', n_checked)
    # ---- liveness on the enumerated graph
    if P is not None:
        h = nx.DiGraph()
        h.add_nodes_from(nodes.values())
        for u, v in g.edges():
            h.add_edge(nodes[u], nodes[v])
        bad = _fair_cycle(h, P, G, rabin, nsv)
        if bad:
            acc.violation('enumerated_path_violates_liveness', case,
                          detail=dict(vars=full, **bad))


def _fair_cycle(h, P, G, rabin, nsv):
    sp = lambda s: s[:nsv]  # noqa
    if not rabin:
        for j, Gj in enumerate(G):
            sub = h.subgraph([s for s in h if sp(s) not in Gj])
            for c in nontrivial_sccs(sub):
                if all(any(sp(s) not in Pk for s in c) for Pk in P):
                    return dict(kind='avoids_goal', goal=j,
                                scc=sorted(c, key=repr))
    else:
        for j, Gj in enumerate(G):
            sub = h.subgraph([s for s in h if sp(s) not in Gj])
            for c in nontrivial_sccs(sub):
                return dict(kind='cycle_avoids_goal', goal=j,
                            scc=sorted(c, key=repr))
        for c in nontrivial_sccs(h):
            if all(any(sp(s) not in Pk for s in c) for Pk in P):
                return dict(kind='cycle_leaves_every_persistence_set',
                            scc=sorted(c, key=repr))
    return None


def _init_unsatisfiable(aut, gm, cl, q, envname='env', sysname='impl'):
    """Is there no way to pick initial nodes in the form `q` at all?"""
    nsv, ne = cl.nsv, gm.ne
    EI = gm.srd.table(aut.init[envname]) if nsv else {()}
    II = cl.frd.table(aut.init[sysname])
    if q == r'\A \A':
        return not any(s[:nsv] in EI for s in II)
    if q == r'\E \E':
        return not II
    if q == r'\A \E':
        envs = {s[:ne] for s in cl.frd.space() if s[:nsv] in EI}
        return not envs or any(
            not any(s[:ne] == x for s in II) for x in envs)
    comps = {s[ne:] for s in II}
    ok = [c for c in comps if all((x + c) in II for x in gm.xs)]
    return not ok or not EI
