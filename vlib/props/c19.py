"""C19 - steppers take only allowed steps; assembly components stay isolated."""
import collections
import itertools

from vlib import families as fam
from vlib import synth
from vlib.loop import ClosedLoop
from vlib.runner import stable_hash
from vlib.families import prime

ID = 'C19'
LEVEL = 'model_checking'
RULE = ('(a) AutomatonStepper over synthesized Streett implementations of '
        'game families A/B (Moore and Mealy, one realizable initial '
        'condition per game): step() at EVERY state of the full bit range '
        '(x every next environment value if Mealy) must return exactly the '
        'implementation variables with values in the action\'s table, or '
        'raise ValueError exactly when no such values exist; init() must be '
        'completable to a state of init[impl]; then breadth-first over ALL '
        'admissible environment input sequences up to length 4 from every '
        'initial state, each step re-checked against the table; the same step/init checks for 8 hand-written implementations x 7 type hints (non-negative, sign-crossing, all-negative of several widths; the 4 narrowest on both back ends); EnumStrategyStepper over '
        'the enumerated graph of the same implementation returns the '
        'output part of an initial node / of a successor at every node. (b) '
        'assemblies of 2-3 components from a menu with deliberately '
        'colliding names (a component name that is a prefix of a visible '
        'variable, equal hidden names in different components, a real '
        'AutomatonStepper and Scheduler among them): every local state '
        'handed to a component holds exactly the variables it declares with '
        'the right values, hidden variables appear globally only mangled, '
        'every recorded step satisfies every component\'s step function; components whose mangled hidden name equals a visible name are either refused (AssertionError) or kept apart; when a component refuses a step (ValueError) the assembly records none; the recorded history (past + state) is exactly the sequence of states taken, also for the second and later assemblies of a process. '
        'non-trivial = stepper has an enabled and a disabled state / '
        'assembly has a hidden variable; distinct = case description')
ASSUMPTIONS = ['dd trusted', 'action tables read out at bit level']
CASE_TIMEOUT = 120


def shards(tier, seed):
    out = []
    for sh in fam.game_shards('quick', seed):
        if sh['backend'] == 'autoref' and tier != 'thorough':
            continue
        s = dict(sh)
        s['kind'] = 'stepper'
        s['deep'] = tier == 'thorough'
        out.append(s)
    for i in range(len(HAND_HINTS)):
        for a in range(len(HAND_ACTIONS)):
            out.append(dict(kind='hand', hint=i, action=a))
    n = len(list(_assemblies()))
    for i in range(0, n, 8):
        out.append(dict(kind='assembly', lo=i, hi=i + 8))
    return out


def cases(shard):
    if shard['kind'] == 'hand':
        for be in ('cudd', 'autoref'):
            if be == 'autoref' and shard['hint'] >= 4:
                continue
            yield dict(kind='hand', hint=list(HAND_HINTS[shard['hint']]),
                       action=shard['action'], backend=be)
        return
    if shard['kind'] == 'assembly':
        for i, a in enumerate(_assemblies()):
            if shard['lo'] <= i < shard['hi']:
                yield dict(kind='assembly', comps=a)
        return
    for c in fam.games(shard, rabin=False):
        h = int(stable_hash(c)[:8], 16)
        if not shard['deep'] and h % 3:
            continue      # a third of the games (C02 explores all of them)
        combos = synth.init_combos(c)
        d = dict(c)
        d['kind'] = 'stepper'
        d['init'] = list(combos[h % len(combos)])
        yield d


def run_case(case, acc):
    if case['kind'] == 'assembly':
        run_assembly(case, acc)
    elif case['kind'] == 'hand':
        run_hand(case, acc)
    else:
        run_stepper(case, acc)


# ---------------------------------------------------------------- steppers

# hand-written implementations over one integer per sign class of hint
# (non-negative, sign-crossing, all-negative of several widths) and a Boolean
HAND_HINTS = [(0, 2), (-2, 1), (-3, -1), (-4, -1), (-6, -2), (-1, 2), (3, 4)]
# (initial condition, action); {lo}/{hi} are the hint's bounds
HAND_ACTIONS = [
    ("y = {hi} /\\ b", "(y' = y) /\\ (b' <=> ~ b)"),
    ("y = {lo}", "(y' = x') /\\ (b' <=> (x' < x))"),
    ("y = x /\\ ~ b", "(y' < y) /\\ b'"),
    ("y <= x", "(y' = x) /\\ (b' <=> b)"),
    ("b", "(y' = {lo}) /\\ ~ b'"),
    ("y = {lo} /\\ b", "(y' <= x') /\\ (y' >= y) /\\ (b' <=> b)"),
    ("y = {hi}", "((y' = y - 1) \\/ (y' = {hi})) /\\ (b => b')"),
    ("~ b", "(y' = {hi}) /\\ (x' = x) /\\ b'"),
]


def run_hand(case, acc):
    """AutomatonStepper over a hand-written action and initial condition."""
    import omega.steps as steps
    import omega.symbolic.temporal as trl
    from vlib import readout as ro
    h = tuple(case['hint'])
    init, action = HAND_ACTIONS[case['action']]
    init = init.format(lo=h[0], hi=h[1])
    action = action.format(lo=h[0], hi=h[1])
    aut = trl.Automaton()
    if case['backend'] == 'autoref':
        import dd.autoref
        aut.bdd = dd.autoref.BDD()
    aut.declare_variables(x=h, y=h, b='bool')
    aut.varlist.update(env=['x'], sys=['y', 'b'], impl=['y', 'b'])
    aut.prime_varlists()
    aut.init['impl'] = aut.add_expr(init)
    aut.action['impl'] = aut.add_expr(action)
    names = ['x', 'y', 'b', "x'", "y'", "b'"]
    A = ro.Reader(aut, names).table(aut.action['impl'])
    I = ro.Reader(aut, ['x', 'y', 'b']).table(aut.init['impl'])
    rng = ro.var_range(aut, 'x')
    mealy = "x'" in aut.support(aut.action['impl'])
    st = steps.AutomatonStepper(aut)
    n = enabled = disabled = 0
    by_state = collections.defaultdict(set)
    for r in A:
        by_state[r[:3] + ((r[3],) if mealy else ())].add((r[4], r[5]))
    for x in rng:
        for y in rng:
            for b in (False, True):
                for xp in (rng if mealy else [None]):
                    n += 1
                    state = dict(x=x, y=y, b=b)
                    if mealy:
                        state["x'"] = xp
                    exp = by_state.get((x, y, b) + ((xp,) if mealy else ()),
                                       set())
                    try:
                        r = st.step(state)
                    except ValueError:
                        r = None
                    if r is None:
                        disabled += 1
                        if exp:
                            acc.ev(n=n)
                            acc.violation(
                                'stepper_refuses_enabled_state', case,
                                detail=dict(state=state,
                                            allowed=sorted(exp)[:4]))
                            return
                        continue
                    enabled += 1
                    if not exp:
                        acc.ev(n=n)
                        acc.violation(
                            'stepper_returns_values_where_disabled', case,
                            detail=dict(state=state, returned=r))
                        return
                    if set(r) != {'y', 'b'}:
                        acc.ev(n=n)
                        acc.violation('stepper_wrong_keys', case, detail=dict(
                            state=state, returned=r))
                        return
                    if (r['y'], r['b']) not in exp:
                        acc.ev(n=n)
                        acc.violation(
                            'stepper_step_not_allowed_by_action', case,
                            detail=dict(state=state, returned=r,
                                        allowed=sorted(exp)[:6]))
                        return
    n += 1
    r0 = st.init()
    if not set(r0) <= {'y', 'b'}:
        acc.ev(n=n)
        acc.violation('stepper_init_wrong_keys', case,
                      detail=dict(returned=r0))
        return
    ix = dict(x=0, y=1, b=2)
    if not any(all(s[ix[k]] == v for k, v in r0.items()) for s in I):
        acc.ev(n=n)
        acc.violation('stepper_init_violates_initial_condition', case,
                      detail=dict(returned=r0, init=init))
        return
    acc.ev(dict(c=case), nontrivial=enabled > 0 and disabled > 0, n=n)

def run_stepper(case, acc):
    import omega.steps as steps
    q, ei, si = case['init']
    sy = synth.Synth(case, q, ei, si)
    aut, gm = sy.aut, sy.gm
    if not sy.ztab or not synth.is_realizable(sy.z, aut):
        acc.ev()
        acc.count('skipped_unrealizable')
        return
    try:
        synth.make_transducer(aut, sy.iterates, False)
    except AssertionError:
        acc.ev()
        acc.count('skipped_construction_refused')
        return
    cl = ClosedLoop(aut, gm, ['_goal'])
    st = steps.AutomatonStepper(aut)
    impl_vars = gm.sys + ['_goal']
    full = cl.full
    ne, ns = gm.ne, gm.ns
    n = 0
    enabled = disabled = 0
    states = cl.frd.space()

    def call(s, x):
        d = dict(zip(full, s))
        if not gm.moore:
            d.update(zip([prime(v) for v in gm.env], x))
        return st.step(d)

    def allowed(s, x):
        opts = cl.opts.get(s, set())
        if gm.moore:
            # implementation independent of x'
            return {o[ne:] for o in opts}
        return {o[ne:] for o in opts if o[:ne] == x}
    for s in states:
        for x in (gm.xs if not gm.moore else [()]):
            n += 1
            exp = allowed(s, x)
            try:
                r = call(s, x)
            except ValueError:
                r = None
            if r is None:
                disabled += 1
                if exp:
                    acc.ev(n=n)
                    acc.violation('stepper_refuses_enabled_state', case,
                                  detail=dict(vars=full, state=s, env_next=x,
                                              allowed=sorted(exp)[:4]))
                    return
                continue
            enabled += 1
            if not exp:
                acc.ev(n=n)
                acc.violation('stepper_returns_values_where_disabled', case,
                              detail=dict(vars=full, state=s, env_next=x,
                                          returned=r))
                return
            if set(r) != set(impl_vars):
                acc.ev(n=n)
                acc.violation('stepper_wrong_keys', case, detail=dict(
                    state=s, returned=r, expected_keys=impl_vars))
                return
            if tuple(r[v] for v in impl_vars) not in exp:
                acc.ev(n=n)
                acc.violation('stepper_step_not_allowed_by_action', case,
                              detail=dict(vars=full, state=s, env_next=x,
                                          returned=r, allowed=sorted(exp)[:6]))
                return
    # init
    n += 1
    r0 = st.init()
    if not set(r0) <= set(impl_vars):
        acc.ev(n=n)
        acc.violation('stepper_init_wrong_keys', case, detail=dict(
            returned=r0))
        return
    Iimpl = cl.frd.table(aut.init['impl'])
    if not any(all(s[full.index(k)] == v for k, v in r0.items())
               for s in Iimpl):
        acc.ev(n=n)
        acc.violation('stepper_init_violates_initial_condition', case,
                      detail=dict(returned=r0))
        return
    # breadth-first over all admissible environment input sequences
    frontier = set(cl.I)
    seen = set(frontier)
    nst = len(frontier)
    ntr = 0
    for depth in range(4):
        nxt = set()
        for s in sorted(frontier, key=repr):
            sx = s[:cl.nsv]
            const = sx[ne + ns:]
            for x in gm.xs:
                # the environment input must be admissible for some choice
                if gm.moore:
                    try:
                        r = call(s, ())
                    except ValueError:
                        r = None
                else:
                    if not any(gm.E(sx, x, y) for y in gm.ys):
                        continue
                    try:
                        r = call(s, x)
                    except ValueError:
                        r = None
                n += 1
                if r is None:
                    if s in cl.R and (gm.plus_one or any(
                            gm.E(sx, x, y) for y in gm.ys)):
                        acc.ev(n=n)
                        acc.violation('stepper_blocks_on_reachable_state',
                                      case, detail=dict(
                                          vars=full, state=s, env_next=x,
                                          depth=depth))
                        return
                    continue
                y = tuple(r[v] for v in gm.sys)
                m = (r['_goal'],)
                if not gm.E(sx, x, y):
                    continue
                t = x + y + const + m
                ntr += 1
                if (x + y + m) not in cl.opts.get(s, set()):
                    acc.ev(n=n)
                    acc.violation('stepper_step_not_allowed_by_action', case,
                                  detail=dict(vars=full, state=s, env_next=x,
                                              returned=r, depth=depth))
                    return
                if t not in seen:
                    seen.add(t)
                    nxt.add(t)
        frontier = nxt
    acc.count('states', len(seen))
    acc.count('transitions', ntr)
    acc.count('traces_validated_against_impl', len(seen))
    acc.ev(dict(c=case), nontrivial=enabled > 0 and disabled > 0, n=n)
    check_enum_stepper(case, acc, aut, gm, q, full, impl_vars)


def check_enum_stepper(case, acc, aut, gm, q, full, impl_vars):
    """EnumStrategyStepper over the enumerated graph of the same
    implementation: init() and step() return the output part of an initial
    node / of a successor of the node that matches the state."""
    import omega.steps as steps
    from omega.games import enumeration as enum
    from vlib.props.c12 import _reads_sys_next
    if case['fam'] in ('A3', 'B6', 'B7') or _reads_sys_next(gm):
        return      # the enumerator's premises (see C12)
    try:
        g = enum.action_to_steps(aut, 'env', 'impl', qinit=q)
    except AssertionError:
        acc.count('enum_stepper_skipped')
        return
    g.inputs = list(gm.env)
    g.outputs = list(impl_vars)
    st = steps.EnumStrategyStepper(g)
    outs = lambda d: {k: d[k] for k in impl_vars}  # noqa
    r0 = st.init()
    if r0 not in [outs(g.nodes[u]) for u in g.initial_nodes]:
        acc.violation('enum_stepper_init_not_an_initial_node', case,
                      detail=dict(returned=r0))
        return
    for u in g:
        if not list(g.successors(u)):
            continue
        r = st.step(dict(g.nodes[u]))
        acc.count('enum_stepper_calls')
        if r not in [outs(g.nodes[v]) for v in g.successors(u)]:
            acc.violation('enum_stepper_step_not_a_successor', case,
                          detail=dict(state=g.nodes[u], returned=r,
                                      successors=[g.nodes[v]
                                                  for v in g.successors(u)]))
            return


# -------------------------------------------------------------- assemblies

class Mock:
    """Deterministic component that records what it is handed."""

    def __init__(self, spec):
        self.spec = spec
        self.vars = {v: dict(type='int', dom=(0, 7))
                     for v in spec['reads'] + spec['writes']}
        self.log = []

    def init(self):
        return {v: (i + 1) % 8 for i, v in enumerate(self.spec['writes'])}

    def step(self, state):
        if self.spec.get('refuse_at') == len(self.log):
            raise ValueError('action is not enabled')
        self.log.append(dict(state))
        return self.next(state)

    def next(self, state):
        tot = sum(v for v in state.values() if not isinstance(v, bool))
        return {v: (tot + i) % 8 for i, v in enumerate(self.spec['writes'])}


MOCKS = {
    # name -> reads (visible of others), writes (own visible and hidden)
    'a': dict(reads=['b'], writes=['ab', '_h']),
    'b_': dict(reads=['ab'], writes=['b', '_h']),
    'ab': dict(reads=['b', 'ab'], writes=['c', '_c']),
    'c': dict(reads=['cy'], writes=['cx', '_x']),
    'c_': dict(reads=['cx'], writes=['cy', '_x', '_y']),
    'k': dict(reads=[], writes=['kk', '_k']),
    'kk': dict(reads=['kk'], writes=['k_', '_k']),
    'm': dict(reads=['turn'], writes=['mm', '_m']),
    # a hidden variable whose mangled name equals a VISIBLE name (its own
    # component's, or another component's): the assembly may refuse such
    # components (AssertionError) but must not mix the two up silently
    'arm': dict(reads=['kk'], writes=['arm_g', '_g']),
    'p': dict(reads=[], writes=['q_z', '_p']),
    'q': dict(reads=['q_z'], writes=['qq', '_z']),
    # refuses its third step (ValueError, as a stepper whose action is
    # disabled does)
    'rf': dict(reads=['kk'], writes=['rfv', '_r'], refuse_at=2),
}
MAY_REFUSE = [{'arm'}, {'p', 'q'}]
COMBOS = [('a', 'b_'), ('a', 'b_', 'ab'), ('c', 'c_'), ('k', 'kk'),
          ('a', 'k'), ('c', 'k', 'kk'), ('m', 'sched'), ('m', 'sched', 'k'),
          ('k', 'impl'), ('k', 'impl', 'impl2'), ('c_', 'impl'),
          ('sched', 'impl', 'm'), ('arm', 'k'), ('p', 'q'), ('p', 'q', 'k'),
          ('k', 'rf'), ('m', 'sched', 'rf')]


def _assemblies():
    for combo in COMBOS:
        for order in itertools.permutations(combo):
            # writers of one visible variable must be unique; reads must be
            # written by someone in the assembly or be absent
            yield list(order)


def _make_impl():
    """A real synthesized implementation: counter y follows TRUE env."""
    case = dict(fam.A_DECL)
    case.update(fam='A1', backend='cudd', E=['tt', ['x', "x'"], 15],
                S=['tt', ['y', "y'"], 0b0110],
                P=[['tt', ['x', 'y'], 0]],
                G=[['tt', ['x', 'y'], 0b1010], ['tt', ['x', 'y'], 0b0101]],
                moore=True, plus_one=True, rabin=False)
    # SysInit mentions y so that AutomatonStepper.init(), which returns only
    # the variables its pick assigns, gives the assembly a value for y
    sy = synth.Synth(case, r'\E \E', ['expr', 'TRUE'], ['expr', '~ y'])
    synth.make_transducer(sy.aut, sy.iterates, False)
    return sy


class EnvOfImpl:
    """Writes the environment variable x of the implementation."""

    def __init__(self):
        self.vars = dict(x=dict(type='bool'), y=dict(type='bool'))
        self.log = []

    def init(self):
        return dict(x=False)

    def step(self, state):
        self.log.append(dict(state))
        return dict(x=not state['x'])


def run_assembly(case, acc):
    import omega.steps as steps
    names = case['comps']
    asm = steps.Assembly()
    comps = {}
    cl = None
    for nm in names:
        if nm == 'sched':
            comps[nm] = steps.Scheduler(3)
        elif nm in ('impl', 'impl2'):
            sy = _make_impl()
            c = steps.AutomatonStepper(sy.aut)
            comps[nm] = _Recorder(c)
            cl = ClosedLoop(sy.aut, sy.gm, ['_goal'])
        else:
            comps[nm] = Mock(MOCKS[nm])
    if any(n in ('impl', 'impl2') for n in names):
        comps['envx'] = EnvOfImpl()
        if 'impl2' in names:
            # second stepper shares y: not composable; rename through a
            # wrapper that exposes y as y2 and reads x
            comps['impl2'] = _Renamed(comps['impl2'], {'y': 'y2'})
    # registration order = the case's order (envx last)
    for nm in list(names) + (['envx'] if 'envx' in comps else []):
        asm.machines[nm] = comps[nm]
    has_hidden = False
    n = 0
    may_refuse = any(m <= set(names) for m in MAY_REFUSE)
    try:
        asm.init()
        hist = [dict(asm.state)]
        for _ in range(4):
            before, npast = asm.state, len(asm.past)
            try:
                asm.step()
            except ValueError:
                # a component signalled that it cannot move: no step was
                # taken, so none may have been recorded
                acc.count('refused_steps')
                if asm.state != hist[-1] or len(asm.past) != npast:
                    acc.ev()
                    acc.violation(
                        'step_recorded_although_a_component_refused', case,
                        detail=dict(state_before=hist[-1],
                                    state_after=asm.state,
                                    history_grew_by=len(asm.past) - npast))
                    return
                break
            hist.append(dict(asm.state))
            n += 1
    except (AssertionError, ValueError) as exc:
        if may_refuse:
            acc.ev(dict(c=case), nontrivial=True)
            acc.count('colliding_names_refused')
            return
        import traceback
        tb = traceback.extract_tb(exc.__traceback__)
        where = next((fr.name for fr in reversed(tb)
                      if 'omega/steps.py' in fr.filename), None)
        acc.ev()
        acc.violation('assembly_raises', case, detail=repr(exc)[:300],
                      where=where)
        return
    # expected global naming
    # the recorded behaviour (`past` + current state) is exactly the
    # sequence of states the assembly went through - no more, no less
    recorded = [dict(x) for x in asm.past] + [dict(asm.state)]
    if recorded != hist:
        acc.ev()
        acc.violation('recorded_history_differs_from_states_taken', case,
                      detail=dict(recorded=recorded[:6], taken=hist[:6],
                                  n_recorded=len(recorded),
                                  n_taken=len(hist)))
        return
    # the name a component's hidden variable has in the global state is the
    # library's business (`steps.add_prefix`); a hidden variable that shows
    # up globally under its own, unmangled name has leaked
    def gname(comp, var):
        return next(iter(steps.add_prefix({var: None}, comp)))
    raw_hidden = {v for c in comps.values() for v in c.vars
                  if v.startswith('_')}
    for g in hist:
        for k in g:
            if k in raw_hidden:
                acc.ev()
                acc.violation('hidden_variable_leaks_unmangled', case,
                              detail=dict(state=g))
                return
    # every component: local states and steps
    for nm, c in comps.items():
        decl = set(c.vars)
        log = getattr(c, 'log', None)
        hidden = [v for v in decl if v.startswith('_')]
        has_hidden = has_hidden or bool(hidden)
        own = None     # what the component itself last returned
        if isinstance(c, Mock):
            own = c.init()
        for i in range(len(hist) - 1):
            g, g2 = hist[i], hist[i + 1]
            exp_local = {}
            for v in decl:
                if v.startswith('_'):
                    # hidden: the value the component produced itself (the
                    # global name it is stored under is not specified); for
                    # the real stepper, the documented mangling name + v
                    if own is not None and v in own:
                        exp_local[v] = own[v]
                    elif own is None and gname(nm, v) in g:
                        exp_local[v] = g[gname(nm, v)]
                elif v in g:
                    exp_local[v] = g[v]
            if isinstance(c, Mock):
                own = c.next(exp_local)
            if log is not None:
                if log[i] != exp_local:
                    acc.ev()
                    acc.violation('component_sees_wrong_local_state', case,
                                  detail=dict(component=nm, step=i,
                                              handed=log[i],
                                              expected=exp_local,
                                              global_state=g))
                    return
            # the recorded step satisfies the component's step function
            if isinstance(c, Mock):
                nxt = c.next(exp_local)
            elif isinstance(c, EnvOfImpl):
                nxt = dict(x=not g['x'])
            elif nm == 'sched':
                nxt = dict(turn=(g['turn'] + 1) % 3)
            else:
                nxt = None
            if nxt is not None:
                for v, val in nxt.items():
                    if v.startswith('_'):
                        continue   # checked through the next local state
                    key = v
                    if g2.get(key) != val:
                        acc.ev()
                        acc.violation('recorded_step_violates_component',
                                      case, detail=dict(
                                          component=nm, step=i, var=key,
                                          expected=val, got=g2.get(key)))
                        return
            elif cl is not None:
                # real stepper: (state, next) must be in the action table
                inner = c
                ren = {}
                if isinstance(c, _Renamed):
                    ren = c.ren
                    inner = c.inner
                yk = ren.get('y', 'y')
                s = (g['x'], g[yk], g[gname(nm, '_goal')])
                o = (g2['x'], g2[yk], g2[gname(nm, '_goal')])
                if o not in cl.opts.get(s, set()):
                    acc.ev()
                    acc.violation('recorded_step_violates_component', case,
                                  detail=dict(component=nm, step=i, state=s,
                                              next=o))
                    return
    acc.ev(dict(c=case), nontrivial=has_hidden, n=max(n, 1))
    acc.count('states', len(hist))
    acc.count('transitions', len(hist) - 1)
    acc.count('traces_validated_against_impl', 1)


class _Recorder:
    def __init__(self, inner):
        self.inner = inner
        self.vars = inner.vars
        self.log = []

    def init(self):
        return self.inner.init()

    def step(self, state):
        self.log.append(dict(state))
        return self.inner.step(state)


class _Renamed:
    """Expose variable names of a wrapped stepper under other names."""

    def __init__(self, rec, ren):
        self.inner = rec
        self.ren = ren
        self.back = {v: k for k, v in ren.items()}
        self.vars = {ren.get(k, k): v for k, v in rec.vars.items()}
        self.log = []

    def init(self):
        return {self.ren.get(k, k): v for k, v in self.inner.init().items()}

    def step(self, state):
        self.log.append(dict(state))
        local = {self.back.get(k, k): v for k, v in state.items()}
        r = self.inner.step(local)
        return {self.ren.get(k, k): v for k, v in r.items()}
