"""C04 - Rabin(1) region exact; dual to the opponent's Streett(1) region."""
from vlib import families as fam
from vlib.runner import stable_hash

ID = 'C04'
LEVEL = 'exploration'
RULE = ('(a) every game of families A and B with the Rabin(1) objective: '
        'zk[-1] of solve_rabin_game vs. explicit arena + Zielonka; (b) for '
        'every Streett(1) game of the same families the dual automaton '
        '(players and actions swapped, Moore<->Mealy, plus_one negated, '
        'holds := ~G_j, goals := ~P_k) is built in a fresh context and the '
        'two regions must partition the full bit range and match the '
        'arena\'s partition; trivial_winning_set of the same game is a subset of the Streett region and, in the Mealy non-strict mode (whose dual is the mode it solves the opponent\'s game in), equals the arena\'s Streett region without recurrence goals; (c) sequences of Rabin games solved in one '
        'reused automaton with modes rotated. non-trivial = reference region neither empty '
        'nor full; distinct = distinct game description')
ASSUMPTIONS = [
    'dd (cudd, autoref) is trusted',
    'reference: explicit arena of the stepwise-implication game, Zielonka',
]


def shards(tier, seed):
    out = []
    for sh in fam.game_shards(tier, seed):
        for part in ('rabin', 'dual', 'seq'):
            if part == 'seq' and sh['tier'] == 'thorough' and \
                    sh['backend'] == 'cudd' and sh['fam'].startswith('A'):
                continue
            s = dict(sh)
            s['part'] = part
            out.append(s)
    return out


def scope(tier, seed):
    return fam.scope_text(tier, seed)


def cases(shard):
    if shard['part'] == 'seq':
        yield from fam.game_sequences(shard, rabin=True)
    elif shard['part'] == 'rabin':
        yield from fam.games(shard, rabin=True)
    else:
        for c in fam.games(shard, rabin=False):
            yield dict(dual_of=c)


def _neg(spec):
    if spec[0] == 'tt':
        n = 1
        # number of rows: product of ranges; Boolean pairs only in family A
        return ['ttneg', spec[1], spec[2]]
    return ['expr', '~ (' + spec[1] + ')']


def dual_case(c):
    d = dict(c)
    d['env'], d['sys'] = c['sys'], c['env']
    d['E'], d['S'] = c['S'], c['E']
    d['P'] = [_neg(g) for g in c['G']]
    d['G'] = [_neg(p) for p in c['P']]
    d['moore'] = not c['moore']
    d['plus_one'] = not c['plus_one']
    d['rabin'] = True
    return d


def run_case(case, acc):
    from omega.games import gr1
    if 'dual_of' in case:
        return run_dual(case['dual_of'], case, acc)
    if 'steps' in case:
        return run_seq(case, acc)
    aut = fam.build_game(case)
    gm = fam.GameModel(aut, case)
    P = [gm.state_table(u) for u in aut.win['<>[]']]
    G = [gm.state_table(u) for u in aut.win['[]<>']]
    zk, yki, xkijr = gr1.solve_rabin_game(aut)
    got = gm.state_table(zk[-1])
    ref = gm.winning(P, G, rabin=True)
    acc.ev(case, 0 < len(ref) < len(gm.states))
    if got != ref:
        acc.violation(
            'rabin_region_mismatch', case,
            detail=dict(vars=gm.svars, missing=sorted(ref - got),
                        extra=sorted(got - ref)))
    # iterates are increasing and end in the region
    prev = set()
    for z in zk:
        t = gm.state_table(z)
        if not prev <= t:
            acc.violation('rabin_iterates_not_monotone', case)
            break
        prev = t


def run_dual(c, case, acc):
    from omega.games import gr1
    aut = fam.build_game(c)
    gm = fam.GameModel(aut, c)
    P = [gm.state_table(u) for u in aut.win['<>[]']]
    G = [gm.state_table(u) for u in aut.win['[]<>']]
    z, _, _ = gr1.solve_streett_game(aut)
    zs = gm.state_table(z)
    d = dual_case(c)
    daut = fam.build_game(d)
    dgm = fam.GameModel(daut, d)
    zk, _, _ = gr1.solve_rabin_game(daut)
    zr_raw = dgm.state_table(zk[-1])
    # reorder dual state tuples to the original variable order
    idx = [dgm.svars.index(v) for v in gm.svars]
    zr = {tuple(t[i] for i in idx) for t in zr_raw}
    allst = set(gm.states)
    ref = gm.winning(P, G, rabin=False)
    acc.ev(case, 0 < len(ref) < len(allst))
    if (zs | zr) != allst or (zs & zr):
        acc.violation(
            'not_complementary', case,
            detail=dict(vars=gm.svars, both=sorted(zs & zr),
                        neither=sorted(allst - zs - zr),
                        arena_streett=sorted(ref)))
    elif zr != allst - ref:
        acc.violation(
            'dual_region_mismatch', case,
            detail=dict(vars=gm.svars, rabin_dual=sorted(zr),
                        arena_opponent=sorted(allst - ref)))


    # trivial-realizability detection built on the duality: the states won
    # by the Streett player minus those from which the opponent can keep
    # its action and visit every ~P_k infinitely often.  Whatever the mode,
    # these are winning states; in the mode whose dual is the mode the
    # function solves the opponent's game in (Mealy, non-strict), duality
    # makes the set exactly the Streett region with no recurrence goal left
    # (the component wins by persistence or by the environment's action
    # alone).
    exact = not c['moore'] and not c['plus_one']
    if not exact and int(stable_hash(c)[:4], 16) % 4:
        return      # the subset reading: a quarter of the other modes
    triv, _ = gr1.trivial_winning_set(aut)
    tt = gm.state_table(triv)
    if not tt <= ref:
        acc.violation('trivial_set_contains_losing_state', case, detail=dict(
            vars=gm.svars, states=sorted(tt - ref)[:6]))
    elif exact:
        exp = gm.winning(P, [set()], rabin=False)
        if tt != exp:
            acc.violation('trivial_set_differs_from_dual', case, detail=dict(
                vars=gm.svars, missing=sorted(exp - tt)[:6],
                extra=sorted(tt - exp)[:6]))
        acc.count('trivial_sets_compared_exactly')


def run_seq(case, acc):
    """Several Rabin games solved one after the other in ONE automaton."""
    from omega.games import gr1
    aut = fam.build_game(dict(case, **case['steps'][0]))
    gm = fam.GameModel(aut, case)
    for i, st in enumerate(case['steps']):
        aut.moore, aut.plus_one = bool(st['moore']), bool(st['plus_one'])
        aut.win['<>[]'] = [fam.pred_bdd(aut, p) for p in st['P']]
        aut.win['[]<>'] = [fam.pred_bdd(aut, g) for g in st['G']]
        P = [gm.state_table(u) for u in aut.win['<>[]']]
        G = [gm.state_table(u) for u in aut.win['[]<>']]
        zk, _, _ = gr1.solve_rabin_game(aut)
        got = gm.state_table(zk[-1])
        ref = gm.winning(P, G, rabin=True, moore=aut.moore,
                         plus_one=aut.plus_one)
        acc.ev(dict(seq=case, i=i), 0 < len(ref) < len(gm.states))
        if got != ref:
            acc.violation(
                'rabin_region_mismatch_in_reused_automaton', case,
                detail=dict(step=i, vars=gm.svars, missing=sorted(ref - got),
                            extra=sorted(got - ref)))
            return
    for v, dst, c2 in fam.ownership_changes(aut, case):
        gm2 = fam.GameModel(aut, c2)
        P = [gm2.state_table(u) for u in aut.win['<>[]']]
        G = [gm2.state_table(u) for u in aut.win['[]<>']]
        zk, _, _ = gr1.solve_rabin_game(aut)
        got = gm2.state_table(zk[-1])
        ref = gm2.winning(P, G, rabin=True)
        acc.ev(dict(seq=case, own=v), 0 < len(ref) < len(gm2.states))
        if got != ref:
            acc.violation(
                'rabin_region_mismatch_after_ownership_change', case,
                detail=dict(moved=v, to=dst, vars=gm2.svars,
                            missing=sorted(ref - got),
                            extra=sorted(got - ref)))
            return
