"""C06 - formula-to-BDD translation agrees with integer/Boolean semantics."""
import itertools

from vlib import fmodel as fm
from vlib import readout as ro

ID = 'C06'
LEVEL = 'exploration'
RULE = ('template families T1-T9 (T9: formula strings without redundant parentheses - every chain of two arithmetic operators, chains of three, sibling LETs binding one name, identifiers with capitals / digits / underscores - read by the reference parser; T1-T8: binary/constant/nested arithmetic with all '
        '5 operators over all ordered pairs of 14 type-hint shapes, all '
        'comparator spellings, ranges, every connective spelling to depth 2, '
        'both conditionals at both levels, quantifiers incl. alternation and '
        'primed variables, LET / define / primes), each formula compared at '
        'EVERY assignment of the full bit ranges with an independent '
        'evaluator over unbounded integers (C99 division; rows with a zero '
        'divisor dropped on both sides). non-trivial = the formula is '
        'neither valid nor unsatisfiable on the compared rows; distinct = '
        '(declarations, formula, back end, translator)')
ASSUMPTIONS = [
    'dd trusted', 'formulas are generated as trees and printed fully '
    'parenthesised, so operator precedence is not in play here (C16)',
    'read-out decodes bits independently of omega']
CASE_TIMEOUT = 60

NONNEG = [(0, 1), (0, 2), (0, 6), (1, 5), (0, 20)]
CROSS = [(-1, 1), (-3, 2), (-5, 7)]
NEG = [(-1, -1), (-3, -1), (-6, -2)]
DEGEN = [(0, 0), (3, 3), (-2, -2)]
SHAPES = NONNEG + CROSS + NEG + DEGEN
SMALL = [(0, 2), (-3, 2), (-3, -1)]          # one per sign class
MED = [(0, 2), (1, 5), (-1, 1), (-3, 2), (-3, -1)]
OPS = ['+', '-', '*', '/', '%']
CMPS = ['=', '#', '!=', '/=', '<', '<=', '=<', '>', '>=']
CONSTS = ['0', '1', '-1', '3', '-4', '7']
CONFIGS = [('cudd', 'rec'), ('cudd', 'iter'), ('autoref', 'rec'),
           ('autoref', 'iter')]


def _result_hint(tree, decl):
    """Hint covering every defined value of integer expression `tree`."""
    names = sorted(decl)
    m = fm.Model({n: ro.rep_range(decl[n]) for n in names})
    lo = hi = None
    for vals in itertools.product(*[m.ranges[n] for n in names]):
        try:
            v = m.ev(tree, dict(zip(names, vals)))
        except fm.Undefined:
            continue
        lo = v if lo is None else min(lo, v)
        hi = v if hi is None else max(hi, v)
    if lo is None:
        return None
    return (lo, hi)


def _func_case(expr, decl, tag):
    h = _result_hint(expr, decl)
    if h is None:
        return None
    d = dict(decl)
    d['r'] = h
    return dict(t=tag, decl=d, tree=('=', 'r', expr), func='r')


def gen_T1(tier):
    for sa, sb in itertools.product(SHAPES, SHAPES):
        for op in OPS:
            c = _func_case((op, 'a', 'b'), dict(a=sa, b=sb), 'T1')
            if c:
                yield c
    for sa in SHAPES:
        for op in OPS:
            for k in CONSTS:
                for e in ((op, 'a', k), (op, k, 'a')):
                    c = _func_case(e, dict(a=sa), 'T1c')
                    if c:
                        yield c


def gen_T2(tier):
    for sa, sb in itertools.product(SHAPES, SHAPES):
        for cmp_ in CMPS:
            yield dict(t='T2', decl=dict(a=sa, b=sb), tree=(cmp_, 'a', 'b'))
    sh3 = SMALL if tier != 'thorough' else MED
    for sa, sb, sc in itertools.product(sh3, sh3, sh3):
        for op in OPS:
            for cmp_ in ['=', '#', '<', '<=', '>', '>=']:
                yield dict(t='T2a', decl=dict(a=sa, b=sb, c=sc),
                           tree=(cmp_, (op, 'a', 'b'), 'c'))
                if cmp_ in ('<', '>='):
                    yield dict(t='T2a', decl=dict(a=sa, b=sb, c=sc),
                               tree=(cmp_, 'c', (op, 'a', 'b')))
    for sa in SHAPES:
        for cmp_ in CMPS:
            for k in ['0', '-1', '2', '-3', '5', '-8', '21']:
                yield dict(t='T2c', decl=dict(a=sa), tree=(cmp_, 'a', k))
                yield dict(t='T2c', decl=dict(a=sa), tree=(cmp_, k, 'a'))


def gen_T3(tier):
    sh = SMALL if tier != 'thorough' else MED
    for sa, sb, sc in itertools.product(sh, sh, sh):
        decl = dict(a=sa, b=sb, c=sc)
        for o1, o2 in itertools.product(OPS, OPS):
            for e in ((o2, (o1, 'a', 'b'), 'c'), (o1, 'a', (o2, 'b', 'c'))):
                c = _func_case(e, decl, 'T3')
                if c:
                    yield c


def gen_T4(tier):
    ranges = [('0', '2'), ('-3', '-1'), ('-2', '3'), ('2', '1'), ('1', '1'),
              ('-9', '9'), ('4', '20'), ('-1', '-3'), ('0', '0'),
              ('-7', '-2'), ('3', '7')]
    for sa in SHAPES:
        for lo, hi in ranges:
            yield dict(t='T4', decl=dict(a=sa),
                       tree=('\\in', 'a', ('..', lo, hi)))
    for sa, sb in itertools.product(MED, MED):
        for op in ('+', '-', '*'):
            for lo, hi in ranges[:7]:
                # R1: `\in` takes a variable or number on its left in the
                # implementation; an arithmetic left side is refused
                yield dict(t='T4a', decl=dict(a=sa, b=sb), may_reject='R1',
                           tree=('\\in', (op, 'a', 'b'), ('..', lo, hi)))


BIN_SPELL = ['/\\', '&', '&&', '\\/', '|', '||', '=>', '->', '<=>', '<->', '^']
BIN_CANON = ['/\\', '\\/', '=>', '<=>', '^']
BDECL = dict(p='bool', q='bool', x=(0, 2))
ATOMS = ['p', 'q', ('=', 'x', '1'), 'TRUE', 'FALSE']


def gen_T5(tier):
    atoms = ATOMS
    for sp in BIN_SPELL:
        for a, b in itertools.product(atoms[:3], atoms):
            yield dict(t='T5', decl=BDECL, tree=(sp, a, b), raw_ops=True)
    for sp in ('~', '!'):
        for a in atoms:
            yield dict(t='T5', decl=BDECL, tree=(sp, a), raw_ops=True)
    d1 = [(op, a, b) for op in BIN_CANON
          for a, b in itertools.product(atoms[:3], atoms[:3])]
    d1 += [('~', a) for a in atoms[:3]]
    for op in BIN_CANON:
        for l in d1:
            for a in atoms[:3]:
                yield dict(t='T5d2', decl=BDECL, tree=(op, l, a))
                yield dict(t='T5d2', decl=BDECL, tree=(op, a, l))
    for l in d1:
        yield dict(t='T5d2', decl=BDECL, tree=('~', l))
    # Boolean equality / difference between Booleans
    for op in ('=', '#', '!=', '/='):
        for a, b in [('p', 'q'), (('/\\', 'p', 'q'), 'q'),
                     ('p', ('~', 'q')), ('p', 'TRUE'),
                     (('=', 'x', '1'), 'p')]:
            c = dict(t='T5eq', decl=BDECL, tree=(op, a, b))
            if isinstance(a, tuple) and a[0] in fm._CMP:
                # R2: a comparison as operand of Boolean (in)equality
                c['may_reject'] = 'R2'
            yield c


def gen_T6(tier):
    decl = dict(p='bool', q='bool', x=(0, 2), y=(-3, 2), z=(-3, -1))
    conds = ['p', ('<', 'x', 'y'), ('/\\', 'p', ('~', 'q')),
             ('=', 'y', 'z')]
    ints = ['x', 'y', 'z', '2', '-1', ('+', 'x', 'y'), ('-', 'z', 'x')]
    bools = ['q', ('<=', 'x', '1'), ('=', 'y', 'z'), 'TRUE', 'FALSE',
             ('\\/', 'p', 'q')]
    for form in ('ite', 'IF'):
        for c in conds:
            for a, b in itertools.product(bools, bools):
                if a == b:
                    continue
                yield dict(t='T6b', decl=decl, tree=(form, c, a, b))
            for a, b in itertools.product(ints, ints):
                if a == b:
                    continue
                for cmp_, rhs in (('=', 'z'), ('<', 'x'), ('>=', '0')):
                    yield dict(t='T6i', decl=decl,
                               tree=(cmp_, (form, c, a, b), rhs))
            for a, b in itertools.product(ints[:4], ints[:4]):
                yield dict(t='T6n', decl=decl, tree=(
                    '<=', ('+', (form, c, a, b), '1'), 'y'))
                yield dict(t='T6n', decl=decl, tree=(
                    '=', (form, c, (form, 'q', a, '0'), b), 'z'))


def gen_T7(tier):
    bodies = [
        ('<=', 'v', 'w'), ('=', ('+', 'v', 'w'), '1'),
        ('=>', ('<', 'v', '1'), ('>', 'w', 'v')),
        ('#', ('*', 'v', 'w'), '2'), ('\\/', 'p', ('=', 'v', 'w')),
        ('=', ('-', 'v', 'w'), '-1'), ('/\\', ('>=', 'v', '0'), 'p')]
    shapes = SHAPES if tier == 'thorough' else (SMALL + [(0, 6), (-1, -1),
                                                         (0, 0), (-5, 7)])
    for sv, sw in itertools.product(shapes, SMALL + [(1, 5)]):
        decl = dict(v=sv, w=sw, p='bool')
        for b in bodies:
            for q in ('\\A', '\\E'):
                yield dict(t='T7', decl=decl, tree=(q, ('v',), b))
                yield dict(t='T7', decl=decl, tree=(q, ('w',), b))
            yield dict(t='T7two', decl=decl, tree=('\\A', ('v', 'w'), b))
            yield dict(t='T7two', decl=decl, tree=('\\E', ('v', 'w'), b))
            yield dict(t='T7alt', decl=decl,
                       tree=('\\A', ('v',), ('\\E', ('w',), b)))
            yield dict(t='T7alt', decl=decl,
                       tree=('\\E', ('w',), ('\\A', ('v',), b)))
            yield dict(t='T7p', decl=decl,
                       tree=('/\\', 'p', ('\\E', ('p',), b)))
            yield dict(t='T7p', decl=decl,
                       tree=('\\A', ('p', 'v'), b))
    # primed quantified variables in an Automaton
    for sv in SMALL + [(0, 6)]:
        decl = dict(v=sv, w=(-3, 2), p='bool')
        for b in [("=", ("'", 'v'), ('+', 'v', '1')),
                  ('<=', ("'", 'v'), 'w'),
                  ('=>', 'p', ('=', ("'", 'w'), 'v'))]:
            for q in ('\\A', '\\E'):
                yield dict(t='T7prime', decl=decl, aut=True,
                           tree=(q, ("v'",), b))
                yield dict(t='T7prime', decl=decl, aut=True,
                           tree=(q, ("w'", 'v'), b))


def gen_T8(tier):
    decl = dict(x=(0, 2), y=(-3, 2), z=(-3, -1), p='bool')
    D = lambda n, b: ('==', n, b)  # noqa
    lets = [
        ('LET', (D('s', ('+', 'x', 'y')),), ('<=', 's', 'z')),
        ('LET', (D('s', ('+', 'x', 'y')), D('t', ('*', 's', '2'))),
         ('=', 't', ('-', 'z', '1'))),
        ('LET', (D('b', ('<', 'x', 'y')),), ('/\\', 'b', ('=>', 'p', 'b'))),
        # shadowing: inner definition of s hides the outer
        ('LET', (D('s', 'x'),),
         ('/\\', ('>=', 's', '1'),
          ('LET', (D('s', 'y'),), ('<', 's', '0')))),
        ('LET', (D('s', ('-', 'x', 'z')),),
         ('LET', (D('t', ('+', 's', 'y')),), ('>', 't', 's'))),
        ('LET', (D('b', 'p'), D('c', ('~', 'b'))), ('\\/', 'c', ('=', 'x', '0'))),
    ]
    for i, t in enumerate(lets):
        c = dict(t='T8let', decl=decl, tree=t)
        if i == 3:
            c['may_reject'] = 'R3'   # re-binding a LET name is refused
        yield c
    defs = [
        ("a == x + y > 1\nb == z - x <= 0\nc == a /\\ b",
         dict(a=('>', ('+', 'x', 'y'), '1'),
              b=('<=', ('-', 'z', 'x'), '0'),
              c=('/\\', 'a', 'b')),
         [('~', 'c'), ('=>', 'a', 'b'), ('/\\', 'c', 'p')]),
        ("s == x + y\nt == s * z",
         dict(s=('+', 'x', 'y'), t=('*', 's', 'z')),
         [('<', 't', 's'), ('=', ('-', 't', 's'), '2'),
          ('\\in', 's', ('..', '-1', '1'))]),
    ]
    for text, dd, forms in defs:
        for f in forms:
            c = dict(t='T8def', decl=decl, tree=f, define=text, defs=dd)
            if 's' in dd:
                # R4: integer-valued operators with arithmetic bodies are
                # refused by Context.define
                c['may_reject'] = 'R4'
            yield c
    yield dict(t='T8def', decl=decl, tree=('=', 'x', 'one'),
               define='one == 1', defs=dict(one='1'))
    yield dict(t='T8def', decl=decl, tree=('<', ('+', 'v2', 'x'), 'y'),
               define='v2 == z', defs=dict(v2='z'))
    # the same operator names with other bodies, in later contexts of the
    # same process
    yield dict(t='T8def', decl=decl, tree=('=', 'x', 'one'),
               define='one == 2', defs=dict(one='2'))
    yield dict(t='T8def', decl=decl, tree=('<', ('+', 'v2', 'x'), 'y'),
               define='v2 == x', defs=dict(v2='x'))
    yield dict(t='T8def', decl=decl, tree=('=>', 'a', 'b'),
               define='a == x < y\nb == z = 0',
               defs=dict(a=('<', 'x', 'y'), b=('=', 'z', '0')))
    # primes in an Automaton
    P = lambda e: ("'", e)  # noqa
    primes = [
        ('=', P('x'), ('+', 'x', '1')),
        ('<=', P('y'), ('-', 'y', P('x'))),
        ('=', P(('+', 'x', 'y')), 'z'),
        (P(('<', 'x', 'y'))),
        ('=>', P('p'), ('=', P('z'), 'z')),
        ('<=>', P(('/\\', 'p', ('=', 'x', '0'))), 'p'),
        ('=', ('*', P('x'), 'y'), P('z')),
        ('X', ('=', 'x', 'y')),
        ('=', ('%', P('y'), '2'), ('/', 'y', '2')),
    ]
    for t in primes:
        yield dict(t='T8prime', decl=dict(x=(0, 2), y=(-3, 2), z=(-3, -1),
                                          p='bool'), aut=True, tree=t)
    # defined operators occurring primed and unprimed in one formula
    adecl = dict(x=(0, 2), y=(-3, 2), p='bool')
    for t in [
            ('LET', (D('pos', ('>', 'x', '0')),),
             ('/\\', 'pos', ('~', P('pos')))),
            ('LET', (D('pos', ('>', 'x', '0')),), ('=>', P('pos'), 'pos')),
            ('LET', (D('b', ('/\\', 'p', ('<', 'y', 'x'))),),
             ('<=>', 'b', P('b'))),
            ('LET', (D('s', ('+', 'x', 'y')),),
             ('=', P('s'), ('+', 's', '1'))),
            ('LET', (D('s', ('+', 'x', 'y')),),
             ('<', 's', P('s'))),
            ('LET', (D('b', 'p'),), ('/\\', P('b'), ('~', 'b')))]:
        c = dict(t='T8letprime', decl=adecl, aut=True, tree=t)
        yield c
    for f in [('=>', 'pos', P('pos')), ('/\\', P('pos'), ('~', 'pos')),
              ('<=>', P('both'), 'both'), ('\\/', 'both', P('pos'))]:
        yield dict(t='T8defprime', decl=adecl, aut=True, tree=f,
                   define="pos == x > 0\nboth == pos /\\ p",
                   defs=dict(pos=('>', 'x', '0'),
                             both=('/\\', 'pos', 'p')))
    for f in [('=>', 'pos', P('pos')), ('\\/', 'both', P('pos'))]:
        yield dict(t='T8defprime', decl=adecl, aut=True, tree=f,
                   define="pos == x < 1\nboth == pos \\/ p",
                   defs=dict(pos=('<', 'x', '1'),
                             both=('\\/', 'pos', 'p')))
    for sa in SHAPES:
        yield dict(t='T8prime', decl=dict(a=sa), aut=True,
                   tree=('=', P('a'), 'a'))
        yield dict(t='T8prime', decl=dict(a=sa), aut=True,
                   tree=('<', P('a'), ('+', 'a', '1')))


def gen_T9(tier):
    """Formulas given as STRINGS without redundant parentheses: the
    reference tree comes from the reference parser (documented precedence
    and associativity), so chains of operators are read as documented."""
    def S(formula, decl, **kw):
        return dict(t='T9', decl=decl, formula=formula,
                    tree=fm.parse(formula), **kw)
    def F(expr, decl):
        # r = <expr>: functional comparison, r's hint covers every value
        tree = fm.parse(expr)
        h = _result_hint(tree, decl)
        if h is None:
            return None
        return dict(t='T9', decl=dict(decl, r=h), formula='r = ' + expr,
                    tree=('=', 'r', tree), func='r')
    # chains of two arithmetic operators, every pair
    for sa in SMALL:
        decl = dict(a=sa, b=(0, 2), c=(-3, 2))
        for o1, o2 in itertools.product(OPS, OPS):
            c = F(f'a {o1} b {o2} c', decl)
            if c:
                yield c
    decl = dict(a=(-3, 2), b=(1, 5), c=(0, 2), d=(-3, -1))
    for o1, o2, o3 in itertools.product(['-', '*', '/', '%'], repeat=3):
        c = F(f'a {o1} b {o2} c {o3} d', decl)
        if c:
            yield c
    for f in ['a - b - c < d', 'a - b + c <= d', 'a / b / c = d + 1',
              'a % b % c >= 0', 'a * b / c = a', 'a + b * c - d > a * b']:
        yield S(f, decl)
    # sibling LET expressions binding the same name; a LET name used again
    # outside its LET; LET inside both branches of an ite
    ldecl = dict(x=(0, 2), y=(-3, 2), p='bool')
    for f in ['(LET k == 1 IN x = k) /\\ (LET k == 2 IN y = k)',
              '(LET k == x + 1 IN k > y) \\/ (LET k == y - 1 IN k < x)',
              '(LET b == p IN b /\\ x = 1) => (LET b == ~ p IN b \\/ y = 0)',
              '(LET k == 1 IN x = k) /\\ (LET j == 2 IN y = j) /\\ '
              '(LET k == 0 IN y > k)',
              'ite(p, LET k == 1 IN x + k, LET k == 2 IN x - k) = y']:
        yield S(f, ldecl)
    # identifiers with capitals, digits and underscores after the first
    # character
    ndecl = dict(numItems=(0, 2), x_Y=(-3, 2), doorOpen='bool', v2b_=(0, 1),
                 Q=(0, 2))
    for f in ['numItems + x_Y > 0 /\\ doorOpen', 'doorOpen <=> (x_Y < v2b_)',
              'Q = numItems', '\\E Q: Q > x_Y /\\ Q < numItems + 2',
              'ite(doorOpen, numItems, v2b_) = Q']:
        yield S(f, ndecl)
    yield dict(t='T9', decl=dict(numItems=(0, 2), doorOpen='bool'), aut=True,
               formula="numItems' = numItems + 1 /\\ doorOpen'",
               tree=fm.parse("numItems' = numItems + 1 /\\ doorOpen'"))


GENS = dict(T1=gen_T1, T2=gen_T2, T3=gen_T3, T4=gen_T4, T5=gen_T5, T6=gen_T6,
            T7=gen_T7, T8=gen_T8, T9=gen_T9)
CHUNK = 120


_CACHE = {}


def _all_cases(tier, fam_):
    k = (tier, fam_)
    if k not in _CACHE:
        _CACHE[k] = list(GENS[fam_](tier))
    return _CACHE[k]


def shards(tier, seed):
    out = []
    for fam_ in GENS:
        n = len(_all_cases(tier, fam_))
        for cfg in CONFIGS:
            full = (cfg == ('cudd', 'rec')) or tier == 'thorough' or \
                fam_ in ('T1', 'T2')
            for start in range(0, n, CHUNK):
                if not full:
                    # other configurations: a seed-rotated quarter
                    if ((start // CHUNK) + seed) % 4 != 0:
                        continue
                out.append(dict(fam=fam_, start=start, cfg=list(cfg),
                                tier=tier))
    return out


def cases(shard):
    lst = _all_cases(shard['tier'], shard['fam'])
    for c in lst[shard['start']:shard['start'] + CHUNK]:
        c = dict(c)
        if 'formula' not in c:
            c['formula'] = fm.show(c['tree'])
        c['cfg'] = shard['cfg']
        yield c


# ------------------------------------------------------------------ running

_ORIG_ADD_EXPR = None


def set_translator(kind):
    """Select recursive / iterative prefix translator (process-local seam)."""
    global _ORIG_ADD_EXPR
    import omega.symbolic.bdd as sym_bdd
    import omega.symbolic.bdd_iterative as it
    if _ORIG_ADD_EXPR is None:
        _ORIG_ADD_EXPR = sym_bdd.add_expr
    sym_bdd.add_expr = it.add_expr if kind == 'iter' else _ORIG_ADD_EXPR
    import omega.symbolic.fol as fol
    return fol.sym_bdd.add_expr is (
        it.add_expr if kind == 'iter' else _ORIG_ADD_EXPR)


def make_context(case):
    backend = case['cfg'][0]
    decl = {k: (v if v == 'bool' else tuple(v))
            for k, v in case['decl'].items()}
    if case.get('aut'):
        import omega.symbolic.temporal as trl
        ctx = trl.Automaton()
    else:
        import omega.symbolic.fol as fol
        ctx = fol.Context()
    if backend == 'autoref':
        import dd.autoref
        ctx.bdd = dd.autoref.BDD()
    if case.get('aut'):
        ctx.declare_variables(**decl)
    else:
        ctx.declare(**decl)
    return ctx, decl


def _tupled(t):
    if isinstance(t, list):
        return tuple(_tupled(x) for x in t)
    return t


def run_case(case, acc):
    tree = _tupled(case['tree'])
    ok = set_translator(case['cfg'][1])
    if not ok:
        acc.count('skipped_translator_seam_missing')
        return
    try:
        _run(case, tree, acc)
    finally:
        set_translator('rec')


def _run(case, tree, acc):
    ctx, decl = make_context(case)
    names = sorted(decl)
    if case.get('aut'):
        names = names + [n + "'" for n in names]
    ranges = {n: ro.rep_range(decl[n.rstrip("'")]) for n in names}
    defs = {k: _tupled(v) for k, v in (case.get('defs') or {}).items()}
    model = fm.Model(ranges, defs)
    formula = case['formula']
    try:
        if case.get('define'):
            ctx.define(case['define'])
            u = ctx.add_expr(formula, with_ops=True)
        else:
            u = ctx.add_expr(formula)
            # the documented synonyms
            if ctx.to_bdd(formula) != u or \
                    ctx.bdds_from('TRUE', formula)[1] != u:
                acc.ev()
                acc.violation('to_bdd_or_bdds_from_differs_from_add_expr',
                              case, detail=dict(formula=formula))
                return
    except Exception as exc:  # noqa
        import traceback
        tb = traceback.extract_tb(exc.__traceback__)
        where = next((f'{fr.filename.split("/")[-1]}:{fr.name}'
                      for fr in reversed(tb) if '/omega/' in fr.filename),
                     None)
        acc.ev()
        if case.get('may_reject') and not isinstance(
                exc, (KeyError, NameError, AttributeError, IndexError)):
            # a refusal (the pristine tree raises AssertionError; the type
            # of the exception is not specified)
            acc.count('refused_by_documented_limitation_'
                      + case['may_reject'])
            return
        acc.violation('formula_not_accepted', case,
                      detail=f'{type(exc).__name__}: {str(exc)[:200]}',
                      exc=type(exc).__name__, where=where,
                      operator=_first_op(tree, {'^'}))
        return
    rd = ro.Reader(ctx, names)
    got = rd.table(u)
    func = case.get('func')
    if func:
        # r = expr: one row per argument tuple, computed functionally
        args = [n for n in names if n != func]
        ri = names.index(func)
        expr = tree[2]
        exp, undef = set(), set()
        for vals in itertools.product(*[ranges[n] for n in args]):
            env = dict(zip(args, vals))
            try:
                v = model.ev(expr, env)
            except fm.Undefined:
                undef.add(vals)
                continue
            row = list(vals)
            row.insert(ri, v)
            exp.add(tuple(row))
        got = {r for r in got
               if tuple(x for i, x in enumerate(r) if i != ri) not in undef}
        diff = got ^ exp
        nontrivial = len(exp) > 1
        nundef = len(undef)
    else:
        true, undef = fm.truth_table(model, tree, names)
        diff = (got ^ true) - undef
        nundef = len(undef)
        total = 1
        for n in names:
            total *= len(ranges[n])
        nontrivial = 0 < len(true) < total - nundef
    acc.ev(dict(d=case['decl'], f=formula, c=case['cfg']), nontrivial)
    acc.count('rows_compared', len(got) + (0 if func else 0))
    if diff:
        row = sorted(diff, key=repr)[0]
        acc.violation(
            'wrong_value', case,
            detail=dict(vars=names, row=row, bdd_true=(row in got),
                        n_rows_differ=len(diff)),
            template=case['t'], operator=_main_arith(tree),
            divisor_wider=_divisor_wider(tree, decl))


def _first_op(t, ops):
    if isinstance(t, str):
        return None
    if t[0] in ops:
        return t[0]
    for x in t[1:]:
        if isinstance(x, tuple):
            r = _first_op(x, ops)
            if r:
                return r
    return None


def _main_arith(t):
    return _first_op(t, {'/', '%'}) or _first_op(t, {'+', '-', '*'})


def _divisor_wider(t, decl):
    """Signature of finding F1: a '/' or '%' whose divisor is a variable
    with more bits than a variable dividend."""
    if isinstance(t, str):
        return False
    if t[0] in ('/', '%') and isinstance(t[1], str) and \
            isinstance(t[2], str) and t[1] in decl and t[2] in decl:
        wa = ro.n_bits_expected(decl[t[1]]) + (0 if _cross(decl[t[1]]) else 1)
        wb = ro.n_bits_expected(decl[t[2]]) + (0 if _cross(decl[t[2]]) else 1)
        return wb > wa
    return any(_divisor_wider(x, decl) for x in t[1:] if isinstance(x, tuple))


def _cross(h):
    return h[0] < 0 <= h[1]
