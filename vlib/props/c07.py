"""C07 - Context operations equal the same operations on sets of assignments."""
import itertools

from vlib import readout as ro

ID = 'C07'
LEVEL = 'exploration'
RULE = ('two declaration sets (Boolean, non-negative, sign-crossing and '
        'all-negative integers, each with a same-typed twin); predicates = '
        'formula menu + unions of up to 3 explicit points; for every '
        'predicate EVERY subset of the variables as quantified set and as '
        'care set (exist, forall, pick_iter, count, pick), let with every '
        'value of every variable (inside and outside hints) and value '
        'pairs, renamings incl. swaps and chains, replace_with_bdd, apply '
        'for each operator, assign_from for every point, support vs. '
        'semantic dependence, copy to a second context and back; renaming, iteration, count, pick and assign_from for variables of 11-13 bits (one at a time); all '
        'compared with the same operation on explicit tables read out at '
        'bit level. evaluations = operation instances; non-trivial = '
        'predicate neither empty nor full; distinct = (declaration set, '
        'predicate, back end)')
ASSUMPTIONS = ['dd trusted', 'tables read out independently of '
               'Context.pick_iter / enumeration module']
CASE_TIMEOUT = 120

DECLS = {
    'D1': dict(base=[('b', 'bool'), ('x', (0, 2)), ('y', (-2, 1)),
                     ('z', (-4, -1))],
               twins=[('b2', 'bool'), ('x2', (0, 2)), ('x3', (0, 2)),
                      ('y2', (-2, 1)), ('z2', (-4, -1))]),
    'D2': dict(base=[('req', 'bool'), ('u', (0, 1)), ('v', (-3, 3)),
                     ('w', (-1, -1))],
               twins=[('req2', 'bool'), ('u2', (0, 1)), ('u3', (0, 1)),
                      ('v2', (-3, 3)), ('w2', (-1, -1))]),
}
MENU = {
    'D1': ["TRUE", "FALSE", "b", "x = 1", "x <= 2", "y < 0", "z = -1",
           "b /\\ (x = y + 1)", "(x + y = z + 4) \\/ ~ b", "x > y /\\ z < y",
           "(y = -3) \\/ (x = 3)", "b <=> (z = -5)", "x # 3 => (y = 1)",
           "(x \\in 1..2) /\\ (z \\in -3..-2)"],
    'D2': ["TRUE", "FALSE", "req", "u = 1", "v < 0", "w = -2",
           "req /\\ (v = u + 1)", "(v + w = 2) \\/ ~ req", "v > u",
           "(v = -4) \\/ (w = -1)", "req <=> (u = 0)", "v # 3 => (w = -1)",
           "v \\in -2..2"],
}
RMENU = {   # predicates that involve twins, for renaming
    'D1': ["x < x2", "(x = 1) /\\ b /\\ ~ b2", "y + 1 = y2",
           "(z2 # z) \\/ b", "(x2 = x3 + 1) /\\ (x <= x3)"],
    'D2': ["u < u2", "(u = 1) /\\ req /\\ ~ req2", "v + 1 = v2",
           "(w2 # w) \\/ req", "(u2 # u3) /\\ (u <= u3)"],
}
APPLY = [('not', 1), ('and', 2), ('or', 2), ('xor', 2), ('=>', 2),
         ('<=>', 2), ('diff', 2), ('ite', 3), ('&', 2), ('|', 2), ('^', 2),
         ('~', 1)]


def _points(decl):
    """A few explicit points (incl. values outside hints)."""
    base = DECLS[decl]['base']
    rngs = [ro.rep_range(h) for _, h in base]
    pts = [tuple(r[0] for r in rngs), tuple(r[-1] for r in rngs),
           tuple(r[len(r) // 2] for r in rngs),
           tuple(r[(i + 1) % len(r)] for i, r in enumerate(rngs)),
           tuple(r[-1 - (i % 2)] for i, r in enumerate(rngs)),
           tuple(r[(2 * i + 1) % len(r)] for i, r in enumerate(rngs))]
    uniq = []
    for p in pts:
        if p not in uniq:
            uniq.append(p)
    return uniq


def predicates(decl, tier='quick'):
    out = [['expr', e] for e in MENU[decl]]
    pts = _points(decl)
    if tier == 'thorough':
        base = DECLS[decl]['base']
        rngs = [ro.rep_range(h) for _, h in base]
        more = [tuple(r[(3 * i + k) % len(r)] for i, r in enumerate(rngs))
                for k in range(1, 5)]
        pts = pts + [p for p in more if p not in pts]
    for k in (1, 2, 3):
        for comb in itertools.combinations(range(len(pts)), k):
            out.append(['points', [list(pts[i]) for i in comb]])
    return out


def shards(tier, seed):
    out = []
    for decl in DECLS:
        preds = predicates(decl, tier)
        for be in ('cudd', 'autoref'):
            for i in range(len(preds)):
                if tier != 'thorough' and be == 'autoref' and \
                        (i + seed) % 3 != 0:
                    continue
                out.append(dict(decl=decl, backend=be, pred=i, tier=tier))
        for be in ('cudd', 'autoref'):
            out.append(dict(decl=decl, backend=be, pred='rename'))
    for be in ('cudd', 'autoref'):
        for i in range(len(WIDE)):
            out.append(dict(decl='wide', backend=be, pred='wide', pair=i))
        out.append(dict(decl='graph', backend=be, pred='graph'))
    return out


def cases(shard):
    if shard['pred'] == 'graph':
        for i in range(len(GRAPH_RELS)):
            yield dict(graph=i, backend=shard['backend'])
        return
    if shard['pred'] == 'wide':
        yield dict(wide=shard['pair'], backend=shard['backend'])
        return
    if shard['pred'] == 'rename':
        yield dict(decl=shard['decl'], backend=shard['backend'],
                   rename=True)
        return
    p = predicates(shard['decl'], shard.get('tier', 'quick'))[shard['pred']]
    yield dict(decl=shard['decl'], backend=shard['backend'], pred=p)


def make_ctx(decl, backend, order=None):
    import omega.symbolic.fol as fol
    ctx = fol.Context()
    if backend == 'autoref':
        import dd.autoref
        ctx.bdd = dd.autoref.BDD()
    d = DECLS[decl]
    items = list(d['base']) + list(d['twins'])
    if order == 'reversed':
        items = items[::-1]
    ctx.declare(**dict(items))
    return ctx


def subsets(names):
    for k in range(len(names) + 1):
        for c in itertools.combinations(names, k):
            yield list(c)


class Ops:
    def __init__(self, acc, case):
        self.acc = acc
        self.case = case
        self.n = 0
        self.failed = False

    def check(self, op, ok, **detail):
        self.n += 1
        if not ok and not self.failed:
            self.failed = True
            self.acc.violation('wrong_' + op, self.case, detail={
                k: (sorted(v, key=repr) if isinstance(v, (set, frozenset))
                    else v) for k, v in detail.items()}, op=op)


def run_case(case, acc):
    ops = Ops(acc, case)
    try:
        if 'graph' in case:
            _run_graph(case, ops)
            nontrivial = True
        elif 'wide' in case:
            _run_wide(case, ops)
            nontrivial = True
        elif case.get('rename'):
            _run_rename(case, ops)
            nontrivial = True
        else:
            nontrivial = _run_pred(case, ops)
    finally:
        acc.ev(dict(c=case), nontrivial=ops.n > 0 and locals().get(
            'nontrivial', False), n=max(ops.n, 1))


def _pred_bdd(ctx, rd, p):
    if p[0] == 'expr':
        return ctx.add_expr(p[1])
    return rd.from_rows([tuple(r) for r in p[1]])


def _run_pred(case, ops):
    decl, be = case['decl'], case['backend']
    ctx = make_ctx(decl, be)
    V = [n for n, _ in DECLS[decl]['base']]
    hints = dict(DECLS[decl]['base'])
    rngs = {v: ro.rep_range(hints[v]) for v in V}
    rd = ro.Reader(ctx, V)
    space = rd.space()
    u = _pred_bdd(ctx, rd, case['pred'])
    T = rd.table(u)
    idx = {v: i for i, v in enumerate(V)}

    def proj(rows, keep):
        ii = [idx[v] for v in keep]
        return {tuple(r[i] for i in ii) for r in rows}

    # ---- support
    dep = set()
    for v in V:
        i = idx[v]
        for r in space:
            for a in rngs[v]:
                r2 = r[:i] + (a,) + r[i + 1:]
                if (r in T) != (r2 in T):
                    dep.add(v)
                    break
            if v in dep:
                break
    ops.check('support', ctx.support(u) == dep, got=sorted(ctx.support(u)),
              expected=sorted(dep))
    # ---- quantification over every subset
    for S in subsets(V):
        keep = [v for v in V if v not in S]
        ii = [idx[v] for v in keep]
        groups = {}
        for r in space:
            groups.setdefault(tuple(r[i] for i in ii), []).append(r in T)
        ex = {r for r in space if any(groups[tuple(r[i] for i in ii)])}
        fa = {r for r in space if all(groups[tuple(r[i] for i in ii)])}
        got = rd.table(ctx.exist(set(S), u))
        ops.check('exist', got == ex, qvars=S, extra=got - ex,
                  missing=ex - got)
        got = rd.table(ctx.forall(set(S), u))
        ops.check('forall', got == fa, qvars=S, extra=got - fa,
                  missing=fa - got)
    # ---- pick_iter / count / pick for every care set (and None)
    for care in [None] + list(subsets(V)):
        _check_pick(ctx, u, T, V, idx, rngs, dep, care, ops)
    # ---- let with values
    for v in V:
        i = idx[v]
        for a in rngs[v]:
            exp = {r for r in space if (r[:i] + (a,) + r[i + 1:]) in T}
            got = rd.table(ctx.let({v: a}, u))
            ops.check('let_value', got == exp, var=v, value=a,
                      extra=got - exp, missing=exp - got)
    for v, w in itertools.combinations(V, 2):
        i, j = idx[v], idx[w]
        for a, c in [(rngs[v][0], rngs[w][-1]), (rngs[v][-1], rngs[w][0]),
                     (rngs[v][len(rngs[v]) // 2], rngs[w][len(rngs[w]) // 2])]:
            def sub(r):
                r = list(r)
                r[i], r[j] = a, c
                return tuple(r)
            exp = {r for r in space if sub(r) in T}
            got = rd.table(ctx.let({v: a, w: c}, u))
            ops.check('let_values', got == exp, vars=[v, w], values=[a, c])
    # full assignments evaluate to a constant
    for r in space[::max(1, len(space) // 40)] + [space[-1]]:
        got = ctx.let(dict(zip(V, r)), u)
        ops.check('let_full', (got == ctx.true) == (r in T) and
                  got in (ctx.true, ctx.false), point=r)
    # ---- the empty assignment is TRUE; a repeated name in a list of care
    # variables counts once
    ops.check('assign_from', ctx.assign_from(dict()) == ctx.true,
              point='empty assignment')
    supp_ = sorted(ctx.support(u))
    if supp_:
        dup = supp_ + [supp_[0]]
        try:
            n_dup = ctx.count(u, care_vars=dup)
            n_it = len(list(ctx.pick_iter(u, care_vars=dup)))
        except Exception as exc:  # noqa
            ops.check('count', False, care=dup, raised=repr(exc)[:200])
        else:
            ops.check('count', n_dup == n_it == ctx.count(
                u, care_vars=set(dup)), care=dup, count=n_dup, yielded=n_it)
    # ---- assign_from
    for r in space:
        got = rd.table(ctx.assign_from(dict(zip(V, r))))
        ops.check('assign_from', got == {r}, point=r, got=got)
    for S in subsets(V):
        if not S or len(S) == len(V):
            continue
        vals = [rngs[v][-1] for v in S]
        got = rd.table(ctx.assign_from(dict(zip(S, vals))))
        exp = {r for r in space
               if all(r[idx[v]] == a for v, a in zip(S, vals))}
        ops.check('assign_from_partial', got == exp, vars=S, values=vals)
    # ---- apply
    others = [ctx.add_expr(e) for e in MENU[decl][2:6]]
    tabs = [rd.table(o) for o in others]
    full = set(space)
    for name, ar in APPLY:
        if ar == 1:
            got = rd.table(ctx.apply(name, u))
            ops.check('apply', got == full - T, operator=name)
            continue
        for o, To in zip(others[:2 if ar == 3 else 4], tabs):
            if ar == 2:
                got = rd.table(ctx.apply(name, u, o))
                exp = {
                    'and': T & To, '&': T & To, 'or': T | To, '|': T | To,
                    'xor': T ^ To, '^': T ^ To,
                    '=>': (full - T) | To, '<=>': full - (T ^ To),
                    'diff': T - To}[name]
            else:
                o2, To2 = others[2], tabs[2]
                got = rd.table(ctx.apply(name, u, o, o2))
                exp = (T & To) | ((full - T) & To2)
            ops.check('apply', got == exp, operator=name)
    # ---- replace_with_bdd on the Boolean variable
    bvar = V[0]
    for o, To in zip(others, tabs):
        got = rd.table(ctx.replace_with_bdd(u, {bvar: o}))
        exp = {r for r in space if ((r in To,) + r[1:]) in T}
        ops.check('replace_with_bdd', got == exp, var=bvar)
    # ---- copy to a differently ordered context and back
    other = make_ctx(decl, be, order='reversed')
    v2 = ctx.copy(u, other)
    rd2 = ro.Reader(other, V)
    ops.check('copy', rd2.table(v2) == T)
    back = other.copy(v2, ctx)
    ops.check('copy_back', back == u)
    return 0 < len(T) < len(space)


def _check_pick(ctx, u, T, V, idx, rngs, dep, care, ops):
    try:
        lst = list(ctx.pick_iter(u, care_vars=None if care is None
                                 else list(care)))
    except Exception as exc:  # noqa
        ops.check('pick_iter', False, care=care, raised=repr(exc)[:200])
        return
    cv = set(care or ())
    allowed = dep | cv
    over = [v for v in V if v in allowed]
    ii = [idx[v] for v in over]
    # table of u over support + care
    target = {tuple(r[i] for i in ii) for r in T}
    seen = set()
    ok = True
    why = None
    for d in lst:
        keys = set(d)
        if not cv <= keys or not keys <= allowed:
            ok, why = False, f'keys {sorted(keys)}'
            break
        free = [v for v in over if v not in d]
        for vals in itertools.product(*[rngs[v] for v in free]):
            e = dict(d)
            e.update(zip(free, vals))
            row = tuple(e[v] for v in over)
            if row in seen:
                ok, why = False, f'assignment {row} yielded twice'
                break
            seen.add(row)
        if not ok:
            break
    if ok and seen != target:
        ok = False
        why = (f'extra {sorted(seen - target, key=repr)[:3]} '
               f'missing {sorted(target - seen, key=repr)[:3]}')
    ops.check('pick_iter', ok, care=care, why=why, vars=over)
    # count (defined when care >= support)
    if care is None or cv >= dep:
        try:
            n = ctx.count(u, care_vars=None if care is None else set(care))
        except Exception as exc:  # noqa
            ops.check('count', False, care=care, raised=repr(exc)[:200])
            n = None
        if n is not None:
            ops.check('count', n == len(target) and n == len(lst),
                      care=care, count=n, yielded=len(lst),
                      expected=len(target))
    p = ctx.pick(u, care_vars=None if care is None else list(care))
    if not T:
        ops.check('pick', p is None, care=care, got=p)
    else:
        good = (p is not None and cv <= set(p) <= allowed)
        if good:
            # every completion of p over `over` must satisfy u
            free = [v for v in over if v not in p]
            for vals in itertools.product(*[rngs[v] for v in free]):
                e = dict(p)
                e.update(zip(free, vals))
                if tuple(e[v] for v in over) not in target:
                    good = False
                    break
        ops.check('pick', good, care=care, got=p)


# relations enumerated as graphs, with and without care sets for the source
# and the target nodes
GRAPH_RELS = ["(x' = x) /\\ (b' <=> ~ b)", "(x' > x) \\/ (b /\\ ~ b')",
              "(x' = 3 - x) /\\ (y' = y)", "(y' < y) /\\ (b' <=> b)",
              "x' # x"]
GRAPH_CARE = [None, "x <= 1", "b", "(x # 2) \\/ ~ b", "y = -1", "TRUE"]


def _run_graph(case, ops):
    """`enumeration.relation_to_graph`: the edges are exactly the pairs of
    assignments in the relation with the source in `care_source` and the
    target in `care_target`."""
    import omega.symbolic.enumeration as enm
    import omega.symbolic.temporal as trl
    aut = trl.Automaton()
    if case['backend'] == 'autoref':
        import dd.autoref
        aut.bdd = dd.autoref.BDD()
    aut.declare_variables(x=(0, 3), y=(-2, -1), b='bool')
    names = ['x', 'y', 'b']
    pn = [n + "'" for n in names]
    e = GRAPH_RELS[case['graph']]
    u = aut.add_expr(e)
    A = ro.Reader(aut, names + pn).table(u)
    srd = ro.Reader(aut, names)
    space = srd.space()
    for cs, ct in itertools.product(GRAPH_CARE, GRAPH_CARE):
        if (cs is None) != (ct is None):
            continue      # the care relation needs both
        S = set(space) if cs is None else srd.table(aut.add_expr(cs))
        T = set(space) if ct is None else srd.table(aut.add_expr(ct))
        exp = {r for r in A if r[:3] in S and r[3:] in T}
        # enumerate over every bit, so that each node is a full valuation
        # (the function looks every variable up in every model)
        bits = [b for n in names + pn for b in ro.bits_of(aut, n)]
        kw = dict(care_bits=bits)
        if cs is not None:
            kw.update(care_source=aut.add_expr(cs),
                      care_target=aut.add_expr(ct))
        if not exp:
            continue
        try:
            g = enm.relation_to_graph(u, aut, **kw)
        except AssertionError:
            raise
        got = set()
        for a, b_ in g.edges():
            src, tgt = g.nodes[a], g.nodes[b_]
            # a node may carry a partial valuation (variables the relation
            # does not constrain): it stands for all its completions
            for s_ in space:
                if any(k in src and src[k] != v
                       for k, v in zip(names, s_)):
                    continue
                for t_ in space:
                    if any(k in tgt and tgt[k] != v
                           for k, v in zip(names, t_)):
                        continue
                    got.add(s_ + t_)
        ops.check('relation_to_graph', got == exp, relation=e,
                  care_source=cs, care_target=ct,
                  extra=sorted(got - exp)[:4], missing=sorted(exp - got)[:4])


# variables of 11-13 bits (bit names with two-digit indices): one variable
# at a time, so that tables over the full bit range stay small
WIDE = [('x', 'x2', (0, 2047)), ('s', 's2', (-1500, 1500)),
        ('n', 'n2', (-2048, -1)), ('w', 'w2', (0, 5000))]


def _run_wide(case, ops):
    import omega.symbolic.fol as fol
    v, v2, hint = WIDE[case['wide']]
    ctx = fol.Context()
    if case['backend'] == 'autoref':
        import dd.autoref
        ctx.bdd = dd.autoref.BDD()
    ctx.declare(**{v: hint, v2: hint, 'k': (0, 3)})
    lo, hi = hint
    mid = (lo + hi) // 2
    consts = sorted({lo, hi, mid, lo + 1, hi - 1, lo + 4, mid + 512,
                     mid - 512, lo + 1024 if lo + 1024 <= hi else mid})
    preds = [f'{v} = {c}' for c in consts] + [
        f'({v} > {mid - 3}) /\\ ({v} < {mid + 9})',
        f'({v} = {lo + 2}) \\/ ({v} = {hi - 2}) \\/ ({v} = {mid + 1})',
        f'({v} <= {lo + 5}) /\\ (k = 2)']
    for e in preds:
        u = ctx.add_expr(e)
        names = [v] + (['k'] if 'k' in ctx.support(u) else [])
        T = ro.Reader(ctx, names).table(u)
        r = ctx.let({v: v2}, u)
        names2 = [v2] + names[1:]
        T2 = ro.Reader(ctx, names2).table(r)
        ops.check('let_rename', T2 == T, predicate=e, renaming={v: v2},
                  got=sorted(T2)[:5], expected=sorted(T)[:5])
        # the symbol table still decodes the ORIGINAL the same way
        ops.check('let_rename', ro.Reader(ctx, names).table(u) == T,
                  predicate=e, what='table of the original changed')
        back = ctx.let({v2: v}, r)
        ops.check('let_rename', back == u, predicate=e, what='round trip')
        got = {tuple(d[n] for n in names2)
               for d in ctx.pick_iter(r, care_vars=names2)}
        ops.check('pick_iter', got == T, predicate=e, after_renaming=True,
                  got=sorted(got)[:5], expected=sorted(T)[:5])
        ops.check('count', ctx.count(r, care_vars=names2) == len(T),
                  predicate=e)
        if T:
            d = ctx.pick(r, care_vars=names2)
            ops.check('pick', tuple(d[n] for n in names2) in T,
                      predicate=e, got=d)
    for c in consts:
        a = ctx.assign_from({v2: c})
        ops.check('assign_from',
                  ro.Reader(ctx, [v2]).table(a) == {(c,)}, value=c)
        ops.check('let_value',
                  ctx.let({v2: c}, ctx.add_expr(f'{v2} = {c}')) == ctx.true
                  and ctx.let({v2: c}, ctx.add_expr(f'{v2} # {c}'))
                  == ctx.false, value=c)


def _run_rename(case, ops):
    decl, be = case['decl'], case['backend']
    ctx = make_ctx(decl, be)
    d = DECLS[decl]
    allv = [n for n, _ in d['base'] + d['twins']]
    hints = dict(d['base'] + d['twins'])
    b, x, y, z = [n for n, _ in d['base']]
    b2, x2, x3, y2, z2 = [n for n, _ in d['twins']]
    renamings = [
        {x: x2}, {x2: x}, {x: x2, x2: x}, {x: x2, x2: x3}, {x: x2, x2: x3, x3: x},
        {y: y2}, {y: y2, y2: y}, {b: b2}, {b: b2, b2: b}, {z: z2, z2: z},
        {x: x3, y: y2, z: z2}, {x: x2, y2: y},
    ]
    preds = RMENU[decl] + MENU[decl][3:9]
    for e in preds:
        u = ctx.add_expr(e)
        supp = ctx.support(u)
        for ren in renamings:
            names = sorted(supp | set(ren) | set(ren.values()))
            if len(names) > 6:
                continue
            rd = ro.Reader(ctx, names)
            T = rd.table(u)
            space = rd.space()
            ix = {v: i for i, v in enumerate(names)}
            # simultaneous substitution: result(r) = u(r') with
            # r'(old) = r(new), r'(other) = r(other)
            exp = set()
            for r in space:
                r2 = list(r)
                for old, new in ren.items():
                    r2[ix[old]] = r[ix[new]]
                if tuple(r2) in T:
                    exp.add(r)
            try:
                got = rd.table(ctx.let(dict(ren), u))
            except AssertionError as exc:
                ops.check('let_rename', False, predicate=e, renaming=ren,
                          raised=repr(exc)[:200])
                continue
            ops.check('let_rename', got == exp, predicate=e, renaming=ren,
                      vars=names, extra=got - exp, missing=exp - got)
