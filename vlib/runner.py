"""Common driver: shards -> worker pool -> verdict, evidence, replay files.

A property module `vlib.props.cNN` provides

    ID, LEVEL, RULE, ASSUMPTIONS
    shards(tier, seed)      -> list of small picklable shard descriptors
    cases(shard)            -> iterator of JSON-serialisable case dicts
    run_case(case, acc)     -> None; records evaluations / violations in `acc`

`run_case` is the single place where a case is decided; the explorer and
`--replay` both call it.  Any exception escaping `run_case` is recorded as a
violation of kind `exception` (a library that raises instead of answering does
not satisfy a property about its answers).
"""
import argparse
import collections
import hashlib
import importlib
import json
import multiprocessing as mp
import os
import signal
import subprocess
import sys
import time
import traceback

VERIF = os.path.dirname(os.path.dirname(os.path.abspath(__file__)))
SRC = os.environ.get('OMEGA_SRC', '/repo')
MAX_VIOL_PER_SHARD = 6
MAX_REPLAYS = 8


def setup_import_path():
    """Make `import omega` resolve to the tree under test."""
    if SRC not in sys.path[:1]:
        sys.path.insert(0, SRC)
    import logging
    logging.getLogger('omega').setLevel('ERROR')
    logging.getLogger('dd').setLevel('ERROR')
    logging.getLogger('astutils').setLevel('ERROR')
    import omega
    root = os.path.realpath(os.path.dirname(os.path.dirname(omega.__file__)))
    if root != os.path.realpath(SRC):
        raise RuntimeError(
            f'omega imported from {root}, expected {SRC}')
    _cheap_cudd_managers()


class _CheapCudd:
    """`dd.cudd` with managers sized for tiny problems.

    A default `dd.cudd.BDD()` queries system memory and allocates a 2**18
    entry cache (about 6 ms); the checks create a manager per case.  Only the
    constructor's sizing arguments change; `dd` is in the trusted base.
    """

    def __init__(self, mod):
        self._mod = mod

    def __getattr__(self, k):
        return getattr(self._mod, k)

    def BDD(self, *a, **kw):
        kw.setdefault('memory_estimate', 2**26)
        kw.setdefault('initial_cache_size', 2**8)
        return self._mod.BDD(*a, **kw)


def _cheap_cudd_managers():
    import omega.symbolic.fol as fol
    try:
        import dd.cudd
    except ImportError:
        return
    if getattr(fol, '_bdd', None) is dd.cudd:
        fol._bdd = _CheapCudd(dd.cudd)


def stable_hash(obj):
    s = json.dumps(obj, sort_keys=True, default=str)
    return hashlib.sha1(s.encode()).hexdigest()


class Acc:
    """Per-shard accumulator of what was explored."""

    def __init__(self):
        self.evals = 0
        self.nontrivial = set()
        self.counters = collections.Counter()
        self.viol = []
        self.nviol = 0
        self.samples = []
        self.sets = collections.defaultdict(set)

    def add_to_set(self, name, key):
        """Distinct-count bookkeeping merged across shards (e.g. states)."""
        self.sets[name].add(int(stable_hash(key)[:15], 16))

    def ev(self, key=None, nontrivial=False, n=1):
        """Record `n` evaluations; `key` identifies a distinct non-trivial case."""
        self.evals += n
        if nontrivial and key is not None:
            self.nontrivial.add(
                key if isinstance(key, int)
                else int(stable_hash(key)[:15], 16))

    def count(self, name, n=1):
        self.counters[name] += n

    def sample(self, case, every=1):
        if len(self.samples) < 2:
            self.samples.append(case)

    def violation(self, kind, case, detail=None, **sig):
        """`sig`: extra fields a known-finding entry may match on."""
        self.nviol += 1
        self.counters['viol:' + kind + ''.join(
            f',{k}={v}' for k, v in sorted(sig.items())
            if isinstance(v, (bool, int, str)) and k != 'where')] += 1
        if len(self.viol) < MAX_VIOL_PER_SHARD:
            v = dict(kind=kind, case=case, detail=detail)
            v.update(sig)
            self.viol.append(v)

    def result(self):
        return dict(
            evals=self.evals, nontrivial=self.nontrivial,
            counters=self.counters, viol=self.viol,
            nviol=self.nviol, samples=self.samples,
            sets=dict(self.sets))


def exception_violation(acc, case, exc):
    tb = traceback.extract_tb(exc.__traceback__)
    where = None
    for fr in reversed(tb):
        if '/omega/' in fr.filename:
            where = f'{os.path.basename(fr.filename)}:{fr.name}'
            break
    if where is None and tb:
        fr = tb[-1]
        where = f'{os.path.basename(fr.filename)}:{fr.name}'
    acc.violation(
        'exception', case,
        detail=''.join(traceback.format_exception(
            type(exc), exc, exc.__traceback__))[-1500:],
        exc=type(exc).__name__, where=where)


_MOD = None


def _init_worker(pid):
    global _MOD
    setup_import_path()
    _MOD = importlib.import_module('vlib.props.' + pid.lower())


class CaseTimeout(Exception):
    """A single case ran longer than the module's CASE_TIMEOUT seconds."""


def _on_alarm(signum, frame):
    raise CaseTimeout('case did not finish within the time limit '
                      '(non-terminating fixpoint or search?)')


def run_with_timeout(mod, case, acc):
    """Run one case; non-termination is an observation, not a hang."""
    # the limit is CPU time of this process (a loaded machine must not turn
    # a slow case into an alarm); wall-clock time is only a distant backstop
    limit = float(getattr(mod, 'CASE_TIMEOUT', 20))
    signal.signal(signal.SIGPROF, _on_alarm)
    signal.signal(signal.SIGALRM, _on_alarm)
    signal.setitimer(signal.ITIMER_PROF, limit)
    signal.setitimer(signal.ITIMER_REAL, 20 * limit)
    try:
        mod.run_case(case, acc)
    except CaseTimeout as exc:
        acc.ev()
        acc.violation('timeout', case, detail=str(exc))
    except Exception as exc:  # noqa
        acc.ev()
        exception_violation(acc, case, exc)
    finally:
        signal.setitimer(signal.ITIMER_PROF, 0)
        signal.setitimer(signal.ITIMER_REAL, 0)


def _work(task, progress=None):
    """Run the shards of one task in this (fresh) process."""
    acc = Acc()
    t0 = time.time()
    index = -1
    try:
        for shard in task:
            stop = False
            for case in _MOD.cases(shard):
                index += 1
                if progress is not None:
                    progress.value = index
                n0 = len(acc.viol)
                run_with_timeout(_MOD, case, acc)
                for v in acc.viol[n0:]:
                    # where in the exploration it happened: lets a replay
                    # rebuild the history of the worker process if the case
                    # alone does not reproduce it
                    v['task'] = task
                    v['index'] = index
                acc.sample(case)
                if acc.counters.get('viol:timeout', 0) >= 1:
                    # do not spend the budget on a tree that hangs
                    acc.count('capped')
                    stop = True
                    break
            if stop:
                break
    except Exception as exc:  # enumeration itself failed: harness bug
        return dict(harness_error=''.join(traceback.format_exception(
            type(exc), exc, exc.__traceback__)), shard=repr(task)[:300])
    r = acc.result()
    r['wall'] = time.time() - t0
    return r


def _task_main(pid, task, conn, progress):
    try:
        _init_worker(pid)
        r = _work(task, progress)
    except BaseException as exc:  # noqa
        r = dict(harness_error=''.join(traceback.format_exception(
            type(exc), exc, exc.__traceback__)), shard=repr(task)[:300])
    conn.send(r)
    conn.close()


def _case_at(mod, task, index):
    i = -1
    for shard in task:
        for case in mod.cases(shard):
            i += 1
            if i == index:
                return case
    return None


def _crash_result(mod, task, index, exitcode):
    """A worker process died (signal, abort, exit) while running a case:
    that is an observation about the code under test, not a harness hang."""
    case = _case_at(mod, task, index) if index >= 0 else None
    if exitcode is not None and exitcode < 0:
        try:
            how = f'killed by signal {signal.Signals(-exitcode).name}'
        except ValueError:
            how = f'killed by signal {-exitcode}'
    else:
        how = f'exited with status {exitcode}'
    v = dict(kind='crash', case=case, task=task, index=index,
             detail=f'the worker process {how} while running this case '
                    '(the interpreter itself went down: e.g. a segmentation '
                    'fault or abort inside the BDD library reached through '
                    'omega)')
    return dict(evals=1, nontrivial=set(), viol=[v], nviol=1, samples=[],
                counters=collections.Counter({'viol:crash': 1, 'capped': 1}),
                sets={})


def run_tasks(pid, mod, tasks, jobs):
    """Run every task in its own freshly forked process, at most `jobs`
    at a time; yield one result per task.  Unlike a process pool this
    survives a worker that dies."""
    import multiprocessing.connection as mpc
    ctx = mp.get_context('fork')
    pending = collections.deque(tasks)
    running = {}
    try:
        yield from _run_tasks(pid, mod, pending, running, jobs, ctx, mpc)
    finally:
        # the consumer stopped early (--fail-fast): end the workers
        for p, rconn, _, _ in running.values():
            if p.is_alive():
                p.terminate()
            p.join()
            rconn.close()


_WATCH = {}
_STUCK = set()


def _cpu_seconds(pid):
    try:
        with open(f'/proc/{pid}/stat') as f:
            parts = f.read().rsplit(')', 1)[1].split()
        return (int(parts[11]) + int(parts[12])) / os.sysconf('SC_CLK_TCK')
    except (OSError, ValueError, IndexError):
        return None


def _run_tasks(pid, mod, pending, running, jobs, ctx, mpc):
    while pending or running:
        while pending and len(running) < jobs:
            task = pending.popleft()
            rconn, wconn = ctx.Pipe(duplex=False)
            progress = ctx.RawValue('i', -1)
            p = ctx.Process(target=_task_main,
                            args=(pid, task, wconn, progress))
            p.start()
            wconn.close()
            running[p.sentinel] = (p, rconn, task, progress)
        ready = mpc.wait([v[1] for v in running.values()] + list(running),
                         timeout=10)
        # watchdog: a case that burns CPU far beyond its limit without the
        # in-process timer firing is stuck outside the interpreter (a loop
        # inside the BDD library): end the worker from here
        limit = float(getattr(mod, 'CASE_TIMEOUT', 20))
        for key in list(running):
            p, rconn, task, progress = running[key]
            cpu = _cpu_seconds(p.pid)
            seen = _WATCH.get(key)
            if seen is None or seen[0] != progress.value or cpu is None:
                _WATCH[key] = (progress.value, cpu)
            elif cpu - (seen[1] or 0) > 3 * limit + 30 and p.is_alive():
                _STUCK.add(key)
                p.kill()
        for key in list(running):
            p, rconn, task, progress = running[key]
            if rconn not in ready and key not in ready and \
                    key not in _STUCK:
                continue
            r = None
            if rconn.poll():
                try:
                    r = rconn.recv()
                except (EOFError, OSError):
                    r = None
            elif p.is_alive():
                continue
            if r is None:
                p.join()
                r = _crash_result(mod, task, progress.value, p.exitcode)
                if key in _STUCK:
                    v = r['viol'][0]
                    v['kind'] = 'timeout'
                    v['detail'] = ('the case used more than three times its '
                                   'CPU-time limit without returning to the '
                                   'interpreter; the worker was ended')
                    r['counters'] = collections.Counter(
                        {'viol:timeout': 1, 'capped': 1})
            else:
                p.join()
            rconn.close()
            del running[key]
            _WATCH.pop(key, None)
            _STUCK.discard(key)
            yield r


def _witness(pid, case):
    setup_import_path()
    mod = importlib.import_module('vlib.props.' + pid.lower())
    return run_single(mod, case).viol


def load_findings(pid):
    path = os.path.join(VERIF, 'known_findings.json')
    if not os.path.exists(path):
        return []
    with open(path) as f:
        d = json.load(f)
    return [x for x in d.get('findings', []) if x.get('property') == pid]


def matches(finding, viol):
    """A violation matches an open finding iff every key of `match` agrees."""
    if finding.get('status') != 'open':
        return False
    m = finding.get('match') or {}
    if not m:
        return False
    for k, v in m.items():
        got = viol.get(k)
        if isinstance(v, dict) and 'contains' in v:
            if not (isinstance(got, str) and v['contains'] in got):
                return False
        elif got != v:
            return False
    return True


def run_single(mod, case):
    acc = Acc()
    run_with_timeout(mod, case, acc)
    return acc


def confirm_in_fresh_process(pid, viol):
    """Re-run the serialized case in a fresh interpreter; same kind must recur."""
    tmp = os.path.join(VERIF, 'replays', pid, '.confirm.json')
    os.makedirs(os.path.dirname(tmp), exist_ok=True)
    with open(tmp, 'w') as f:
        json.dump(dict(property=pid, kind=viol['kind'], case=viol['case'],
                       task=viol.get('task'), index=viol.get('index')), f,
                  default=str)
    env = dict(os.environ)
    p = subprocess.run(
        [sys.executable, '-m', 'vlib.runner', pid, '--replay', tmp,
         '--machine'],
        cwd=VERIF, env=env, capture_output=True, text=True, timeout=600)
    os.remove(tmp)
    kinds = []
    for line in p.stdout.splitlines():
        if line.startswith('REPLAY-KINDS '):
            kinds = json.loads(line[len('REPLAY-KINDS '):])
    if p.returncode < 0 and not kinds:
        kinds = ['crash']     # the replaying interpreter went down as well
    return viol['kind'] in kinds, kinds


def do_replay(mod, pid, path, machine):
    with open(path) as f:
        d = json.load(f)
    case = d['case']
    if d.get('kind') == 'crash' and not os.environ.get('VERIF_IN_CRASH_REPLAY'):
        # the case took the interpreter down: replay it in a child
        env = dict(os.environ, VERIF_IN_CRASH_REPLAY='1')
        p = subprocess.run(
            [sys.executable, '-m', 'vlib.runner', pid, '--replay', path] +
            (['--machine'] if machine else []), cwd=VERIF, env=env,
            capture_output=True, text=True)
        if p.returncode >= 0:
            sys.stdout.write(p.stdout)
            return p.returncode
        if machine:
            print('REPLAY-KINDS ' + json.dumps(['crash']))
            return 0
        print(f'replay of {path}: case =')
        print(json.dumps(case, indent=1, default=str)[:4000])
        print('--- VIOLATION: kind=crash')
        print(f'the replaying interpreter died (status {p.returncode}) '
              'while running this case')
        print(f'VIOLATION property={pid} replay={path}')
        return 1
    acc = run_single(mod, case)
    kinds = sorted({v['kind'] for v in acc.viol})
    if d.get('kind') not in kinds and d.get('task') is not None:
        # not reproduced by the case alone: replay the cases the worker ran
        # before it, in one process (state kept between calls)
        acc = Acc()
        index = -1
        done = False
        for shard in d['task']:
            for c in mod.cases(shard):
                index += 1
                run_with_timeout(mod, c, acc)
                if index >= d.get('index', 0):
                    done = True
                    break
            if done:
                break
        hist = sorted({v['kind'] for v in acc.viol})
        if d.get('kind') in hist:
            kinds = hist
            if not machine:
                print('(reproduced only with the history of the preceding '
                      f'{d.get("index", 0)} cases of the worker task)')
    if machine:
        print('REPLAY-KINDS ' + json.dumps(kinds))
        return 0
    print(f'replay of {path}: case =')
    print(json.dumps(case, indent=1, default=str)[:4000])
    if not acc.viol:
        print('no violation: the property holds on this case')
        return 0
    findings = load_findings(pid)
    rc = 0
    for v in acc.viol:
        known = [f for f in findings if matches(f, v)]
        tag = f'KNOWN-FINDING {known[0]["id"]}' if known else 'VIOLATION'
        if not known:
            rc = 1
        print(f'--- {tag}: kind={v["kind"]}')
        print(json.dumps({k: v[k] for k in v if k != 'case'},
                         indent=1, default=str)[:4000])
    if rc:
        print(f'VIOLATION property={pid} replay={path}')
    return rc


def main(argv=None):
    ap = argparse.ArgumentParser()
    ap.add_argument('pid')
    ap.add_argument('--tier', default=os.environ.get('VERIF_TIER', 'quick'))
    ap.add_argument('--replay')
    ap.add_argument('--machine', action='store_true')
    ap.add_argument('--jobs', type=int,
                    default=int(os.environ.get('VERIF_JOBS', '0')) or
                    min(16, os.cpu_count() or 1))
    ap.add_argument('--fail-fast', action='store_true',
                    help='debug: stop exploring after the first task that '
                         'reports an unlisted violation (evidence says '
                         'capped)')
    ap.add_argument('--only', default='',
                    help='debug: run only shards whose repr contains this '
                         'text (evidence then says exhaustive=false)')
    ap.add_argument('--max-shards', type=int, default=0,
                    help='debug: run only the first N shards (evidence '
                         'then says exhaustive=false)')
    args = ap.parse_args(argv)
    pid = args.pid.upper()
    tier = args.tier if args.tier in ('quick', 'thorough') else 'quick'
    try:
        seed = int(os.environ.get('VERIF_SEED', '0'))
    except ValueError:
        seed = 0
    setup_import_path()
    mod = importlib.import_module('vlib.props.' + pid.lower())
    if args.replay:
        return do_replay(mod, pid, args.replay, args.machine)
    t0 = time.time()
    findings = load_findings(pid)
    known_lines = []
    # 1. witnesses of open findings
    for f in findings:
        if f.get('status') != 'open':
            continue
        w = f.get('witness')
        if w is None:
            continue
        with mp.get_context('fork').Pool(1) as wp:
            wviol = wp.apply(_witness, (pid, w))
        acc = Acc()
        acc.viol = wviol
        if any(matches(f, v) for v in acc.viol):
            known_lines.append(
                f'KNOWN-FINDING: property={pid} {f["id"]}: {f["what"]}')
        else:
            print(f'note: witness of known finding {f["id"]} no longer '
                  f'reproduces (kinds seen: '
                  f'{sorted({v["kind"] for v in acc.viol})})')
    # 2. exploration
    shards = list(mod.shards(tier, seed))
    capped = False
    if args.only:
        shards = [sh for sh in shards if args.only in repr(sh)]
        capped = True
    if args.max_shards and len(shards) > args.max_shards:
        shards = shards[:args.max_shards]
        capped = True
    total = dict(evals=0, nviol=0)
    nontrivial = set()
    counters = collections.Counter()
    viols = []
    samples = []
    harness_errors = []
    merged_sets = collections.defaultdict(set)
    jobs = max(1, min(args.jobs, len(shards)))
    # Shards are dealt round-robin to at most 8 tasks per worker; every task
    # runs in a fresh process, so state that omega keeps between calls can
    # only come from the cases of the same task, which a replay rebuilds.
    ntasks = max(1, min(len(shards), 8 * jobs))
    tasks = [shards[i::ntasks] for i in range(ntasks)]
    for r in run_tasks(pid, mod, tasks, jobs):
        if 'harness_error' in r:
            harness_errors.append(r)
            continue
        total['evals'] += r['evals']
        total['nviol'] += r['nviol']
        nontrivial |= r['nontrivial']
        counters.update(r['counters'])
        for k_, v_ in r.get('sets', {}).items():
            merged_sets[k_] |= v_
        viols.extend(r['viol'])
        if len(samples) < 3 and r['samples']:
            samples.append(r['samples'][0])
        if args.fail_fast and any(
                not any(matches(f, v) for f in findings) for v in r['viol']):
            capped = True
            break
    if harness_errors:
        for h in harness_errors[:3]:
            print('HARNESS-ERROR in shard', h['shard'])
            print(h['harness_error'])
        print(f'{pid}: harness error, no verdict')
        return 2
    # 3. classify
    new = []
    known_counts = collections.Counter()
    for v in viols:
        k = [f for f in findings if matches(f, v)]
        if k:
            known_counts[k[0]['id']] += 1
        else:
            new.append(v)
    for f in findings:
        if f.get('status') == 'open' and known_counts[f['id']] and not any(
                f' {f["id"]}:' in ln for ln in known_lines):
            known_lines.append(
                f'KNOWN-FINDING: property={pid} {f["id"]}: {f["what"]}')
    for ln in known_lines:
        fid = ln.split()[2].rstrip(':')
        n = known_counts.get(fid, 0)
        print(ln + (f' [{n} explored cases match]' if n else ''))
    # 4. replay artefacts
    rc = 0
    written = []
    nondet = False
    if new:
        rc = 1
        rdir = os.path.join(VERIF, 'replays', pid)
        os.makedirs(rdir, exist_ok=True)
        seen_kinds = collections.Counter()
        new.sort(key=lambda v: (v['kind'], len(json.dumps(v['case'],
                                                          default=str))))
        for v in new:
            if len(written) >= MAX_REPLAYS:
                break
            seen_kinds[v['kind']] += 1
            if seen_kinds[v['kind']] > 3:
                continue
            h = stable_hash(dict(k=v['kind'], c=v['case']))[:12]
            path = os.path.join(rdir, f'{h}.json')
            if len(written) < 2:
                ok, kinds = confirm_in_fresh_process(pid, v)
                if not ok:
                    nondet = True
                    print(f'NONDETERMINISM: {v["kind"]} did not recur in a '
                          f'fresh process (saw {kinds}); case kept at {path}')
            with open(path, 'w') as f:
                json.dump(dict(property=pid, **v), f, indent=1, default=str)
            written.append(path)
            print(f'VIOLATION property={pid} replay={path}')
            print(f'   kind={v["kind"]} '
                  f'{json.dumps({k: v[k] for k in v if k not in ("case", "detail", "kind")}, default=str)[:300]}')
            if v.get('detail'):
                print('   ' + str(v['detail'])[-600:].replace('\n', '\n   '))
    wall = time.time() - t0
    # 5. evidence
    cov = dict(
        evaluations=total['evals'],
        distinct_nontrivial=len(nontrivial),
        rule=mod.RULE,
        samples=samples[:3] or ['(no case ran)'],
        exhaustive=(not capped) and not counters.get('capped', 0),
        shards=len(shards),
        violations_unlisted=len(new),
        violations_matching_known_findings=dict(known_counts),
    )
    for k_, v_ in merged_sets.items():
        counters[k_] = len(v_)
    for k, v in sorted(counters.items()):
        if k in ('states', 'transitions', 'traces_validated_against_impl',
                 'programs', 'disagreements_checked'):
            cov[k] = int(v)
        else:
            cov.setdefault('counters', {})[k] = int(v)
    if hasattr(mod, 'scope'):
        cov['scope'] = mod.scope(tier, seed)
    ev = dict(
        property_id=pid, tier=tier, seed=seed, level=mod.LEVEL,
        coverage=cov, assumptions=list(mod.ASSUMPTIONS),
        wall_s=round(wall, 2), violations=len(new))
    edir = os.path.join(VERIF, 'evidence')
    if os.environ.get('VERIF_NO_EVIDENCE'):
        # runs against deliberately broken trees keep evidence and replays out
        edir = '/var/tmp/omega_verif_scratch_evidence'
        for pth in written:
            os.remove(pth)
    os.makedirs(edir, exist_ok=True)
    with open(os.path.join(edir, f'{pid}.json'), 'w') as f:
        json.dump(ev, f, indent=1, default=str)
    print(f'{pid} [{tier}, seed {seed}]: {total["evals"]} evaluations, '
          f'{len(nontrivial)} distinct non-trivial, {len(shards)} shards, '
          f'{len(new)} unlisted violations '
          f'({total["nviol"]} violating observations in all), '
          f'{wall:.1f}s')
    extra = {k: v for k, v in sorted(counters.items())}
    if extra:
        print('   ' + ', '.join(f'{k}={v}' for k, v in extra.items()))
    if nondet:
        return 3
    return rc


if __name__ == '__main__':
    sys.exit(main())
