"""Explicit two-player game arena and a Zielonka solver (reference model).

Player 0 is the component, player 1 the environment.  Vertices:
('s', state), ('m', state, choice) for the player who moves first, and the
absorbing sinks 'WIN' / 'LOSE'.  See DESIGN.md section 3.3.
"""
import itertools


def attr(player, target, V, succ, owner):
    """Attractor of `target` for `player` inside the sub-arena `V`."""
    A = set(target) & V
    pred = {v: [] for v in V}
    cnt = {}
    for v in V:
        n = 0
        for w in succ[v]:
            if w in V:
                n += 1
                pred[w].append(v)
        cnt[v] = n
    stack = list(A)
    while stack:
        w = stack.pop()
        for v in pred[w]:
            if v in A:
                continue
            if owner[v] == player:
                A.add(v)
                stack.append(v)
            else:
                cnt[v] -= 1
                if cnt[v] == 0:
                    A.add(v)
                    stack.append(v)
    return A


def solve_muller(V, succ, owner, win_set, children):
    """Zielonka's algorithm; returns (W0, W1) partition of `V`.

    `win_set(S)`: does player 0 win a play with Inf = S;
    `children(S)`: maximal subsets of S with the opposite verdict.
    `V` must be closed (every vertex has a successor inside `V`).
    """
    V = frozenset(V)
    if not V:
        return set(), set()
    sigma = 0 if win_set(V) else 1
    for S in children(V):
        A = attr(sigma, V - S, V, succ, owner)
        W = solve_muller(V - A, succ, owner, win_set, children)
        Wopp = W[1 - sigma]
        if Wopp:
            B = attr(1 - sigma, Wopp, V, succ, owner)
            W2 = solve_muller(V - B, succ, owner, win_set, children)
            res = [None, None]
            res[sigma] = set(W2[sigma])
            res[1 - sigma] = set(W2[1 - sigma]) | B
            return res[0], res[1]
    res = [set(), set()]
    res[sigma] = set(V)
    return res[0], res[1]


def build_game(states, xs, ys, E, S, moore, plus_one, nxt):
    """Arena of the stepwise-implication game.

    E(s, x, y), S(s, x, y) -> bool; nxt(s, x, y) -> state.
    """
    succ = {'WIN': ['WIN'], 'LOSE': ['LOSE']}
    owner = {'WIN': 0, 'LOSE': 0}

    def outcome(s, x, y):
        e = E(s, x, y)
        a = S(s, x, y)
        if plus_one:
            if not a:
                return 'LOSE'
            if not e:
                return 'WIN'
        else:
            if not e:
                return 'WIN'
            if not a:
                return 'LOSE'
        return ('s', nxt(s, x, y))

    for s in states:
        v = ('s', s)
        succ[v] = []
        if moore:
            owner[v] = 0
            for y in ys:
                m = ('m', s, y)
                succ[v].append(m)
                owner[m] = 1
                succ[m] = [outcome(s, x, y) for x in xs]
        else:
            owner[v] = 1
            for x in xs:
                m = ('m', s, x)
                succ[v].append(m)
                owner[m] = 0
                succ[m] = [outcome(s, x, y) for y in ys]
    return succ, owner


class Objective:
    """Streett(1) / Rabin(1) objectives as Muller conditions on Inf."""

    def __init__(self, P, G, rabin):
        """P, G: lists of sets of states (persistence, recurrence)."""
        self.P = [frozenset(p) for p in P]
        self.G = [frozenset(g) for g in G]
        self.rabin = rabin
        self._lab = {}

    def lab(self, v):
        r = self._lab.get(v)
        if r is None:
            nP, nG = len(self.P), len(self.G)
            if v == 'WIN':
                r = ((True,) * nP, (True,) * nG)
            elif v == 'LOSE':
                r = ((False,) * nP, (False,) * nG)
            elif v[0] == 'm':
                r = ((True,) * nP, (False,) * nG)
            else:
                s = v[1]
                r = (tuple(s in p for p in self.P),
                     tuple(s in g for g in self.G))
            self._lab[v] = r
        return r

    def win_set(self, Sv):
        L = self.lab
        pers = any(all(L(v)[0][k] for v in Sv) for k in range(len(self.P)))
        rec = all(any(L(v)[1][j] for v in Sv) for j in range(len(self.G)))
        return (pers and rec) if self.rabin else (pers or rec)

    def children(self, Sv):
        L = self.lab
        out = []
        w = self.win_set(Sv)
        if w:
            for j in range(len(self.G)):
                C = frozenset(v for v in Sv if not L(v)[1][j])
                if not C:
                    continue
                if self.rabin or not self.win_set(C):
                    out.append(C)
        else:
            for k in range(len(self.P)):
                C = frozenset(v for v in Sv if L(v)[0][k])
                if not C:
                    continue
                if self.rabin:
                    if C != Sv and self.win_set(C):
                        out.append(C)
                else:
                    out.append(C)
        return out


def brute_children(Sv, win_set):
    """All maximal subsets whose verdict differs (self-test only)."""
    Sv = list(Sv)
    w = win_set(frozenset(Sv))
    cand = []
    for r in range(len(Sv), 0, -1):
        for c in itertools.combinations(Sv, r):
            c = frozenset(c)
            if win_set(c) != w and not any(c < d for d in cand):
                cand.append(c)
    return cand


def winning_states(states, xs, ys, E, S, moore, plus_one, nxt, P, G, rabin):
    """States from which the component wins (set of states)."""
    succ, owner = build_game(states, xs, ys, E, S, moore, plus_one, nxt)
    obj = Objective(P, G, rabin)
    W0, _ = solve_muller(set(succ), succ, owner, obj.win_set, obj.children)
    return {v[1] for v in W0 if v not in ('WIN', 'LOSE') and v[0] == 's'}


def cpre(states, xs, ys, E, S, moore, plus_one, nxt, target):
    """One-step controllable predecessor of the state set `target`."""
    target = set(target)

    def ok(s, x, y):
        e = E(s, x, y)
        a = S(s, x, y)
        t = nxt(s, x, y) in target
        if plus_one:
            return a and ((not e) or t)
        return (not e) or (a and t)
    out = set()
    for s in states:
        if moore:
            r = any(all(ok(s, x, y) for x in xs) for y in ys)
        else:
            r = all(any(ok(s, x, y) for y in ys) for x in xs)
        if r:
            out.add(s)
    return out
