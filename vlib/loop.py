"""Closed-loop product of environment and synthesized implementation:
explicit states, reachability, invariants and the SCC fair-cycle criterion.
"""
import collections
import itertools

import networkx as nx

from vlib import readout as ro
from vlib.families import prime


def nontrivial_sccs(g):
    for c in nx.strongly_connected_components(g):
        if len(c) > 1:
            yield c
        else:
            (v,) = c
            if g.has_edge(v, v):
                yield c


class ClosedLoop:
    """Explicit closed loop of `aut.action['impl']` with the environment."""

    def __init__(self, aut, gm, mem, impl=None, init=None):
        """`gm`: GameModel of the specification; `mem`: memory variables."""
        self.aut = aut
        self.gm = gm
        self.mem = list(mem)
        self.svars = gm.svars
        self.full = gm.svars + self.mem
        self.nsv = len(gm.svars)
        self.ne, self.ns = gm.ne, gm.ns
        self.memranges = [ro.var_range(aut, m) for m in self.mem]
        self.memchoices = list(itertools.product(*self.memranges))
        primed = ([prime(v) for v in gm.env] + [prime(v) for v in gm.sys] +
                  [prime(m) for m in self.mem])
        self.trd = ro.Reader(aut, self.full + primed)
        self.frd = ro.Reader(aut, self.full)
        impl = aut.action['impl'] if impl is None else impl
        self.impl_bdd = impl
        self.It = self.trd.table(impl)
        if init is None:
            init = aut.init['impl'] & aut.init['env']
        self.init_bdd = init
        self.I = self.frd.table(init)
        nf = len(self.full)
        self.opts = collections.defaultdict(set)   # state -> {(x', y', m')}
        for t in self.It:
            self.opts[t[:nf]].add(t[nf:])
        self._succ = {}
        self._explore()

    # a full state is  env + sys + const + mem
    def spec_part(self, s):
        return s[:self.nsv]

    def successors(self, s):
        r = self._succ.get(s)
        if r is None:
            gm = self.gm
            sx = s[:self.nsv]
            const = sx[self.ne + self.ns:]
            r = set()
            for o in self.opts.get(s, ()):
                x, y, m = (o[:self.ne], o[self.ne:self.ne + self.ns],
                           o[self.ne + self.ns:])
                if gm.E(sx, x, y):
                    r.add(x + y + const + m)
            self._succ[s] = r
        return r

    def _explore(self):
        self.parent = {}
        R = set(self.I)
        queue = collections.deque(sorted(self.I, key=repr))
        for s in R:
            self.parent[s] = None
        self.n_edges = 0
        while queue:
            s = queue.popleft()
            for n in sorted(self.successors(s), key=repr):
                self.n_edges += 1
                if n not in R:
                    R.add(n)
                    self.parent[n] = s
                    queue.append(n)
        self.R = R

    def graph(self):
        g = nx.DiGraph()
        g.add_nodes_from(self.R)
        for s in self.R:
            for n in self.successors(s):
                g.add_edge(s, n)
        return g

    # ------------------------------------------------------------ checks

    def check_action_refines(self):
        """impl => S (plus_one) / impl /\\ E => S (otherwise), everywhere."""
        gm = self.gm
        nf = len(self.full)
        for t in self.It:
            sx = t[:self.nsv]
            o = t[nf:]
            x, y = o[:self.ne], o[self.ne:self.ne + self.ns]
            if gm.plus_one:
                if not gm.S(sx, x, y):
                    return dict(step=t, rule='impl => SysNext')
            else:
                if gm.E(sx, x, y) and not gm.S(sx, x, y):
                    return dict(step=t, rule='impl /\\ EnvNext => SysNext')
        return None

    def check_moore_independent(self):
        """A Moore implementation does not read next environment values."""
        nf = len(self.full)
        ne = self.ne
        xs = self.gm.xs
        for t in self.It:
            s, o = t[:nf], t[nf:]
            rest = o[ne:]
            for x in xs:
                if (x + rest) not in self.opts[s]:
                    return dict(step=t, missing_for_env_next=x)
        return None

    def blocked_states(self, obliged_only=False):
        """Reachable states where the implementation offers no step.

        Mealy: for some next environment value no (y', m') is offered;
        Moore: no (y', m') is offered for all next environment values.
        With `obliged_only` (non-strict causality) states/inputs at which
        the environment cannot keep its action are not counted.
        """
        gm = self.gm
        out = []
        for s in sorted(self.R, key=repr):
            opts = self.opts.get(s, set())
            sx = s[:self.nsv]
            if gm.moore:
                ok = any(all((x + y + m) in opts for x in gm.xs)
                         for y in gm.ys for m in self.memchoices)
                if not ok and obliged_only:
                    ok = not any(gm.E(sx, x, y)
                                 for x in gm.xs for y in gm.ys)
            else:
                ok = True
                for x in gm.xs:
                    if obliged_only and not any(
                            gm.E(sx, x, y) for y in gm.ys):
                        continue
                    if not any((x + y + m) in opts
                               for y in gm.ys for m in self.memchoices):
                        ok = False
                        break
            if not ok:
                out.append(s)
        return out

    def mem_out_of_range(self):
        out = []
        doms = [tuple(self.aut.vars[m]['dom']) for m in self.mem]
        for s in self.R:
            for (lo, hi), v in zip(doms, s[self.nsv:]):
                if not lo <= v <= hi:
                    out.append(s)
                    break
        return out

    def liveness_violations(self, P, G, rabin):
        """Fair-cycle criterion; P, G are sets of spec states."""
        g = self.graph()
        sp = self.spec_part
        out = []
        if not rabin:
            for j, Gj in enumerate(G):
                h = g.subgraph([s for s in self.R if sp(s) not in Gj])
                for c in nontrivial_sccs(h):
                    if all(any(sp(s) not in Pk for s in c) for Pk in P):
                        out.append(dict(kind='avoids_goal_and_leaves_every_'
                                        'persistence_set', goal=j,
                                        scc=sorted(c, key=repr)))
        else:
            for j, Gj in enumerate(G):
                h = g.subgraph([s for s in self.R if sp(s) not in Gj])
                for c in nontrivial_sccs(h):
                    out.append(dict(kind='cycle_avoids_goal', goal=j,
                                    scc=sorted(c, key=repr)))
            for c in nontrivial_sccs(g):
                if all(any(sp(s) not in Pk for s in c) for Pk in P):
                    out.append(dict(kind='cycle_leaves_every_persistence_set',
                                    scc=sorted(c, key=repr)))
        return out

    # ------------------------------------------------- conformance replay

    def replay_through_impl(self):
        """Re-confirm every BFS-tree edge and initial state with omega's own
        substitution on the real BDDs.  Returns (n_paths, first_mismatch)."""
        aut = self.aut
        gm = self.gm
        names = self.full
        pn = ([prime(v) for v in gm.env] + [prime(v) for v in gm.sys] +
              [prime(m) for m in self.mem])
        env_action = aut.action['env']
        n = 0
        for s, par in self.parent.items():
            n += 1
            if par is None:
                v = aut.let(dict(zip(names, s)), self.init_bdd)
                if v != aut.true:
                    return n, dict(init_state=s)
                continue
            const_len = self.nsv - self.ne - self.ns
            nxt_vals = (s[:self.ne + self.ns] + s[self.nsv:])
            d = dict(zip(names, par))
            d.update(zip(pn, nxt_vals))
            v = aut.let(d, self.impl_bdd)
            e = aut.let(d, env_action)
            if v != aut.true or e != aut.true:
                return n, dict(edge=(par, s))
        return n, None

    def path_to(self, s):
        p = []
        while s is not None:
            p.append(s)
            s = self.parent[s]
        return list(reversed(p))
