"""Reference model of omega's formula language.

* `tokenize` / `parse`: own tokenizer and precedence-climbing parser built
  from the precedence table documented in `doc/doc.md` (see `DOC_LEVELS`);
  produces generic trees `(op, operand, ...)` with terminals as `str`.
* `evaluate`: semantics over unbounded Python integers and Booleans, C99
  division, bounded quantifiers over representable ranges, LET, definitions,
  primes.
* `show`: printer of generic trees to omega syntax (fully parenthesised).

Nothing here imports omega.
"""
import itertools
import re

# documented precedence, lowest to highest; (tokens, associativity)
DOC_LEVELS = [
    ([':'], 'l'),
    (['<=>', '<->'], 'l'),
    (['=>', '->'], 'l'),
    (['^'], 'l'),
    (['\\/', '|', '||'], 'l'),
    (['/\\', '&', '&&'], 'l'),
    (['[]', '<>', '-[]', '-<>'], 'l'),
    (['U', 'W', 'R', 'V', 'S', 'T'], 'l'),
    (['=', '#', '/=', '!='], 'l'),
    (['<=', '=<', '>=', '>', '<', '\\in'], 'l'),
    (['+', '-'], 'l'),
    (['*', '/', '%'], 'l'),
    (['~', '!'], 'r'),
    (['X', '-X', '--X'], 'r'),
    (["'", '.'], 'l'),
]
PREFIX = {'[]', '<>', '-[]', '-<>', '~', '!', 'X', '-X', '--X'}
# canonical spelling of operators whose spellings the lexer identifies
CANON = {'&': '/\\', '&&': '/\\', '|': '\\/', '||': '\\/', '->': '=>',
         '<->': '<=>', '!': '~'}
# spelling classes the lexer keeps verbatim but that mean the same
SAME = {'#': '!=', '/=': '!=', '=<': '<='}
RESERVED = {'ite', 'X', 'FALSE', 'False', 'false', 'TRUE', 'True', 'true',
            'LET', 'IN', 'IF', 'THEN', 'ELSE', 'U', 'W', 'V', 'S', 'T'}


def level_tables(levels=None, release='V'):
    levels = DOC_LEVELS if levels is None else levels
    binprec, assoc, preprec = {}, {}, {}
    for i, (toks, a) in enumerate(levels):
        for t in toks:
            if t in (':', '.', "'"):
                continue
            if t in PREFIX:
                preprec[t] = i
            else:
                binprec[t] = i
                assoc[t] = a
    return binprec, assoc, preprec


_TOKEN_RE = re.compile(r'''
      (?P<mlc>\(\*[\s\S]*?\*\))
    | (?P<slc>\\\*[^\n]*(\n|$))
    | (?P<ws>[ \t\n]+)
    | (?P<name>[A-Za-z_][A-Za-z0-9_]*)
    | (?P<num>\d+)
    | (?P<op><=>|<->|=>|->|/\\|\\/|&&|&|\|\||\||!=|/=|\#|=<|<=|>=|==
         |\\A|\\E|\\in|\.\.|--X|-X|-\[\]|-<>|\[\]|<>|<<>>
         |~|!|=|<|>|\+|-|\*|/|%|\^|\(|\)|,|:|'|@|")
''', re.X)


def tokenize(s):
    pos, out = 0, []
    while pos < len(s):
        m = _TOKEN_RE.match(s, pos)
        if m is None:
            raise SyntaxError(f'cannot tokenize at {s[pos:pos + 20]!r}')
        pos = m.end()
        k = m.lastgroup
        if k in ('ws', 'mlc', 'slc'):
            continue
        out.append(m.group(k))
    return out


class Parser:
    """Precedence climbing over the documented table."""

    def __init__(self, levels=None):
        self.binprec, self.assoc, self.preprec = level_tables(levels)
        self.low = -1

    def parse(self, s):
        self.toks = tokenize(s) if isinstance(s, str) else list(s)
        self.i = 0
        if self._is_defs():
            defs = self._defs(stop=None)
            self._end()
            return ('defs',) + tuple(defs)
        e = self.expr(self.low)
        self._end()
        return e

    def _end(self):
        if self.i != len(self.toks):
            raise SyntaxError(f'trailing tokens {self.toks[self.i:]}')

    def peek(self, k=0):
        j = self.i + k
        return self.toks[j] if j < len(self.toks) else None

    def nxt(self):
        t = self.toks[self.i]
        self.i += 1
        return t

    def expect(self, t):
        g = self.nxt() if self.i < len(self.toks) else None
        if g != t:
            raise SyntaxError(f'expected {t!r}, got {g!r}')

    def _is_defs(self):
        return (len(self.toks) >= 2 and self.toks[1] == '==' and
                _isname(self.toks[0]))

    def _defs(self, stop):
        defs = []
        while self.peek() is not None and self.peek() != stop:
            name = self.nxt()
            self.expect('==')
            body = self.expr(self.low, in_defs=True)
            defs.append(('==', name, body))
        return defs

    def _stop_at_def(self, in_defs):
        # inside a list of definitions, `NAME ==` starts the next one
        return in_defs and self.peek(1) == '==' and _isname(self.peek() or '')

    def atom(self, in_defs=False):
        t = self.nxt() if self.i < len(self.toks) else None
        if t is None:
            raise SyntaxError('unexpected end')
        if t == '(':
            e = self.expr(self.low)
            self.expect(')')
            return e
        if t == '-' and (self.peek() or '').isdigit():
            return '-' + self.nxt()
        if t.isdigit():
            return t
        if t in self.preprec:
            p = self.preprec[t]
            a = 'r' if t in ('~', '!', 'X', '-X', '--X') else 'l'
            # operand: everything binding tighter than the prefix operator
            operand = self.expr(p, in_defs=in_defs)
            return (CANON.get(t, t), operand)
        if t in ('\\A', '\\E'):
            names = [self._qvar()]
            while self.peek() == ',':
                self.nxt()
                names.append(self._qvar())
            self.expect(':')
            body = self.expr(self.low, in_defs=in_defs)
            return (t, tuple(names), body)
        if t == 'LET':
            defs = self._defs(stop='IN')
            self.expect('IN')
            body = self.expr(self.low, in_defs=in_defs)
            return ('LET', tuple(defs), body)
        if t == 'IF':
            c = self.expr(self.low)
            self.expect('THEN')
            a = self.expr(self.low)
            self.expect('ELSE')
            b = self.expr(self.low, in_defs=in_defs)
            return ('ite', c, a, b)
        if t == 'ite':
            self.expect('(')
            c = self.expr(self.low)
            self.expect(',')
            a = self.expr(self.low)
            self.expect(',')
            b = self.expr(self.low)
            self.expect(')')
            return ('ite', c, a, b)
        if t in ('TRUE', 'True', 'true'):
            return 'TRUE'
        if t in ('FALSE', 'False', 'false'):
            return 'FALSE'
        if t in ('/\\', '\\/', '&', '&&', '|', '||'):
            # leading junction of a junction list
            return self.atom(in_defs)
        if _isname(t) and t not in RESERVED:
            return t
        raise SyntaxError(f'unexpected token {t!r}')

    def _qvar(self):
        n = self.nxt()
        if self.peek() == "'":
            self.nxt()
            n += "'"
        return n

    def expr(self, minp, in_defs=False):
        left = self.atom(in_defs)
        while True:
            t = self.peek()
            if t is None:
                break
            if self._stop_at_def(in_defs):
                break
            if t == "'":
                self.nxt()
                left = ("'", left)
                continue
            if t == '\\in':
                p = self.binprec['\\in']
                if p <= minp:
                    break
                self.nxt()
                lo = self._number()
                self.expect('..')
                hi = self._number()
                left = ('\\in', left, ('..', lo, hi))
                continue
            if t in self.binprec and self.binprec[t] > minp:
                op = self.nxt()
                p = self.binprec[op]
                right = self.expr(p if self.assoc[op] == 'l' else p - 1,
                                  in_defs=in_defs)
                left = (CANON.get(op, op), left, right)
                continue
            break
        return left

    def _number(self):
        t = self.nxt()
        if t == '-':
            t = '-' + self.nxt()
        if not t.lstrip('-').isdigit():
            raise SyntaxError(f'number expected, got {t!r}')
        return t


def _isname(t):
    return bool(re.fullmatch(r'[A-Za-z_][A-Za-z0-9_]*', t))


_PARSER = Parser()


def parse(s):
    return _PARSER.parse(s)


def from_omega(t):
    """Generic tree of an `omega.logic.ast` tree (duck-typed)."""
    if isinstance(t, list):
        return ('defs',) + tuple(from_omega(x) for x in t)
    if hasattr(t, 'operator'):
        op = t.operator
        ops = t.operands
        if op in ('\\A', '\\E'):
            params, body = ops
            names = []
            for p_ in params.operands:
                if hasattr(p_, 'operator'):
                    names.append(p_.operands[0].value + "'")
                else:
                    names.append(p_.value)
            return (op, tuple(names), from_omega(body))
        if op == 'LET':
            defs, body = ops
            return ('LET', tuple(('==', d.operands[0].value,
                                  from_omega(d.operands[1])) for d in defs),
                    from_omega(body))
        if op == '==':
            return ('==', ops[0].value, from_omega(ops[1]))
        if op == '\\in':
            rng = ops[1]
            return ('\\in', from_omega(ops[0]),
                    ('..', rng.operands[0].value, rng.operands[1].value))
        return (op,) + tuple(from_omega(o) for o in ops)
    v = t.value
    if getattr(t, 'type', None) == 'bool':
        return v.upper()
    return v


def same_tree(a, b):
    """Tree equality modulo the spelling classes (`'` = X, # = != ...)."""
    def norm(t):
        if isinstance(t, str):
            return t
        op = t[0]
        op = {"'": 'X'}.get(op, op)
        op = CANON.get(op, op)
        op = SAME.get(op, op)
        if op in ('\\A', '\\E'):
            return (op, tuple(t[1]), norm(t[2]))
        if op == 'LET':
            return (op, tuple(('==', n, norm(b_)) for _, n, b_ in t[1]),
                    norm(t[2]))
        if op == '\\in':
            return (op, norm(t[1]), t[2])
        if op == 'IF':
            op = 'ite'
        return (op,) + tuple(norm(x) for x in t[1:])
    return norm(a) == norm(b)


# ---------------------------------------------------------------- printing

def show(t):
    """Fully parenthesised omega syntax of a generic tree."""
    if isinstance(t, str):
        return t
    op = t[0]
    if op == "'":
        return f"({show(t[1])})'"
    if op in ('\\A', '\\E'):
        return f"({op} {', '.join(t[1])}: {show(t[2])})"
    if op == 'LET':
        ds = ' '.join(f'{n} == {show(b)}' for _, n, b in t[1])
        return f'(LET {ds} IN {show(t[2])})'
    if op == 'ite':
        return f'ite({show(t[1])}, {show(t[2])}, {show(t[3])})'
    if op == 'IF':
        return (f'(IF {show(t[1])} THEN {show(t[2])} '
                f'ELSE {show(t[3])})')
    if op == '\\in':
        return f'({show(t[1])} \\in {t[2][1]}..{t[2][2]})'
    if len(t) == 2:
        return f'({op} {show(t[1])})'
    if len(t) == 3:
        return f'({show(t[1])} {op} {show(t[2])})'
    raise ValueError(t)


# -------------------------------------------------------------- evaluation

class Undefined(Exception):
    """Division or remainder by zero: the formula's value is unspecified."""


def c99_div(a, b):
    if b == 0:
        raise Undefined
    q = abs(a) // abs(b)
    return q if (a >= 0) == (b >= 0) else -q


def c99_mod(a, b):
    return a - b * c99_div(a, b)


_ARITH = {
    '+': lambda a, b: a + b, '-': lambda a, b: a - b,
    '*': lambda a, b: a * b, '/': c99_div, '%': c99_mod}
_CMP = {
    '=': lambda a, b: a == b, '!=': lambda a, b: a != b,
    '#': lambda a, b: a != b, '/=': lambda a, b: a != b,
    '<': lambda a, b: a < b, '<=': lambda a, b: a <= b,
    '=<': lambda a, b: a <= b, '>': lambda a, b: a > b,
    '>=': lambda a, b: a >= b}


class Model:
    """Evaluation context: declared ranges and operator definitions."""

    def __init__(self, ranges, defs=None):
        """`ranges`: name (primed names included) -> list of values."""
        self.ranges = ranges
        self.defs = dict(defs or {})   # name -> generic tree

    def ev(self, t, env, primed=False):
        if isinstance(t, str):
            return self._terminal(t, env, primed)
        op = CANON.get(t[0], t[0])
        ev = self.ev
        if op == "'" or op == 'X':
            return ev(t[1], env, True)
        if op == '~':
            return not _b(ev(t[1], env, primed))
        if op == '/\\':
            a = self._lazy(t[1], env, primed)
            b = self._lazy(t[2], env, primed)
            return _and(a, b)
        if op == '\\/':
            a = self._lazy(t[1], env, primed)
            b = self._lazy(t[2], env, primed)
            return _or(a, b)
        if op == '=>':
            a = self._lazy(t[1], env, primed)
            b = self._lazy(t[2], env, primed)
            return _or(_not(a), b)
        if op == '<=>':
            return _b(ev(t[1], env, primed)) == _b(ev(t[2], env, primed))
        if op == '^':
            return _b(ev(t[1], env, primed)) != _b(ev(t[2], env, primed))
        if op in _CMP:
            a, b = ev(t[1], env, primed), ev(t[2], env, primed)
            if isinstance(a, bool) != isinstance(b, bool):
                raise TypeError(f'comparison of {a!r} and {b!r}')
            return _CMP[op](a, b)
        if op in _ARITH:
            a, b = ev(t[1], env, primed), ev(t[2], env, primed)
            _i(a), _i(b)
            return _ARITH[op](a, b)
        if op == '\\in':
            v = _i(ev(t[1], env, primed))
            return int(t[2][1]) <= v <= int(t[2][2])
        if op in ('ite', 'IF'):
            c = _b(ev(t[1], env, primed))
            return ev(t[2] if c else t[3], env, primed)
        if op in ('\\A', '\\E'):
            names = list(t[1])
            doms = [self.ranges[n] for n in names]
            e2 = dict(env)
            res = (op == '\\A')
            undefined = False
            for vals in itertools.product(*doms):
                e2.update(zip(names, vals))
                try:
                    v = _b(ev(t[2], e2, primed))
                except Undefined:
                    undefined = True
                    continue
                if op == '\\A' and not v:
                    return False
                if op == '\\E' and v:
                    return True
            if undefined:
                raise Undefined
            return res
        if op == 'LET':
            sub = Model(self.ranges, self.defs)
            for _, name, body in t[1]:
                sub.defs[name] = ('closure', body, sub_defs(sub))
            return sub.ev(t[2], env, primed)
        raise ValueError(f'cannot evaluate {t!r}')

    def _lazy(self, t, env, primed):
        try:
            return _b(self.ev(t, env, primed))
        except Undefined:
            return None

    def _terminal(self, t, env, primed):
        if t == 'TRUE':
            return True
        if t == 'FALSE':
            return False
        if t.lstrip('-').isdigit():
            return int(t)
        if t in self.defs:
            d = self.defs[t]
            if isinstance(d, tuple) and d and d[0] == 'closure':
                return Model(self.ranges, d[2]).ev(d[1], env, primed)
            return self.ev(d, env, primed)
        if primed and (t + "'") in env:
            return env[t + "'"]
        if t in env:
            return env[t]
        raise KeyError(f'unbound identifier {t!r}')


def sub_defs(m):
    return dict(m.defs)


def _b(v):
    if not isinstance(v, bool):
        raise TypeError(f'Boolean expected, got {v!r}')
    return v


def _i(v):
    if isinstance(v, bool) or not isinstance(v, int):
        raise TypeError(f'integer expected, got {v!r}')
    return v


# three-valued connectives: None = undefined operand (division by zero).
# A row is dropped from the comparison whenever the whole formula's value
# depends on an undefined operand.
def _not(a):
    return None if a is None else (not a)


def _and(a, b):
    if a is False or b is False:
        if a is None or b is None:
            raise Undefined
        return False
    if a is None or b is None:
        raise Undefined
    return True


def _or(a, b):
    if a is None or b is None:
        raise Undefined
    return a or b


def truth_table(model, tree, names):
    """(true_rows, undefined_rows) over the product of the ranges of `names`."""
    true, undef = set(), set()
    doms = [model.ranges[n] for n in names]
    for vals in itertools.product(*doms):
        env = dict(zip(names, vals))
        try:
            if _b(model.ev(tree, env)):
                true.add(vals)
        except Undefined:
            undef.add(vals)
    return true, undef
