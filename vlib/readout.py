"""Independent observation of which assignments a BDD contains.

Bit *names* come from the context's symbol table; their *meaning* is decoded
here from the documented convention (little-endian two's complement; the sign
bit is omitted and constant for sign-definite type hints).  Nothing of
`Context.pick_iter`, `Context.let` or `omega.symbolic.enumeration` is used.
"""
import itertools


def hint_width(lo, hi):
    w = max(abs(lo), abs(hi)).bit_length()
    return max(w, 1)


def rep_range(hint):
    """Values representable for a variable declared with `hint`."""
    if hint == 'bool':
        return [False, True]
    lo, hi = hint
    w = hint_width(lo, hi)
    if lo < 0 <= hi:
        return list(range(-2**w, 2**w))
    if lo >= 0:
        return list(range(0, 2**w))
    return list(range(-2**w, 0))


def hint_of(ctx, var):
    d = ctx.vars[var]
    if d['type'] == 'bool':
        return 'bool'
    return tuple(d['dom'])


def var_range(ctx, var):
    return rep_range(hint_of(ctx, var))


def bits_of(ctx, var):
    d = ctx.vars[var]
    if d['type'] == 'bool':
        return [var]
    return list(d['bitnames'])


def n_bits_expected(hint):
    if hint == 'bool':
        return 1
    lo, hi = hint
    w = hint_width(lo, hi)
    return w + 1 if lo < 0 <= hi else w


def decode(hint, bitvals):
    """Value of an integer from its (little-endian) stored bits."""
    if hint == 'bool':
        return bool(bitvals[0])
    lo, hi = hint
    n = len(bitvals)
    if lo < 0 <= hi:
        # stored top bit is the sign bit
        v = sum((1 << i) for i, b in enumerate(bitvals[:-1]) if b)
        if bitvals[-1]:
            v -= 1 << (n - 1)
        return v
    v = sum((1 << i) for i, b in enumerate(bitvals) if b)
    if lo >= 0:
        return v
    return v - (1 << n)


def encode(hint, value, nbits):
    """Stored bits (list of bool) of `value`; inverse of `decode`."""
    if hint == 'bool':
        assert value in (True, False, 0, 1), value
        return [bool(value)]
    lo, hi = hint
    if lo < 0 <= hi:
        m = value & ((1 << nbits) - 1)
    elif lo >= 0:
        assert 0 <= value < (1 << nbits), (hint, value)
        m = value
    else:
        assert -(1 << nbits) <= value < 0, (hint, value)
        m = value + (1 << nbits)
    bits = [bool((m >> i) & 1) for i in range(nbits)]
    assert decode(hint, bits) == value, (hint, value, bits)
    return bits


class Reader:
    """Decoder for a fixed list of variables of one context."""

    def __init__(self, ctx, names):
        self.ctx = ctx
        self.names = list(names)
        self.hints = [hint_of(ctx, v) for v in self.names]
        self.bits = [bits_of(ctx, v) for v in self.names]
        self.allbits = [b for bs in self.bits for b in bs]
        assert len(set(self.allbits)) == len(self.allbits), self.allbits

    def table(self, u):
        """Set of value tuples (ordered as `names`) at which `u` is true.

        `u` must not depend on other variables (checked).
        """
        bdd = self.ctx.bdd
        supp = bdd.support(u)
        extra = set(supp) - set(self.allbits)
        if extra:
            raise ValueError(
                f'BDD depends on bits outside the read-out: {sorted(extra)}')
        out = set()
        hints, bits = self.hints, self.bits
        for m in bdd.pick_iter(u, care_vars=set(self.allbits)):
            out.add(tuple(
                decode(h, [m[b] for b in bs])
                for h, bs in zip(hints, bits)))
        return out

    def space(self):
        return list(itertools.product(*[rep_range(h) for h in self.hints]))

    def cube(self, values):
        """BDD of the single point `values` (tuple ordered as `names`)."""
        d = dict()
        for h, bs, v in zip(self.hints, self.bits, values):
            for b, val in zip(bs, encode(h, v, len(bs))):
                d[b] = val
        return self.ctx.bdd.cube(d)

    def from_rows(self, rows):
        """BDD of a set of points."""
        bdd = self.ctx.bdd
        u = bdd.false
        for r in rows:
            u |= self.cube(r)
        return u


def table(ctx, u, names):
    return Reader(ctx, names).table(u)


def mask_rows(space, mask):
    """Rows of `space` selected by the bits of integer `mask`."""
    return [r for i, r in enumerate(space) if (mask >> i) & 1]
