"""Shared by C02, C03, C05, C12, C19: initial-condition menus, synthesis of
implementations from game cases, reference formulas for realizability."""
import contextlib
import io
import itertools

from vlib import families as fam
from vlib import readout as ro

QINITS = [r'\A \A', r'\E \E', r'\A \E', r'\E \A']


def _atom(v, hint):
    if hint == 'bool':
        return v
    return f'{v} = {hint[0]}'


def init_menus(case):
    """(EI, SI, EI_shared): formula menus for the initial conditions.

    EI is over environment variables only (disjoint-state forms); EI_shared
    may mention every variable and the pseudo-spec ['W'] (library's region).
    """
    env, sys_ = case['env'], case['sys']
    EI = [['expr', 'TRUE'], ['expr', 'FALSE']]
    SI = [['expr', 'TRUE'], ['expr', 'FALSE']]
    if env:
        a = _atom(*env[0])
        EI += [['expr', a], ['expr', f'~ ({a})']]
    if sys_:
        b = _atom(*sys_[0])
        SI += [['expr', b], ['expr', f'~ ({b})']]
        if env:
            SI.append(['expr', f'({a}) <=> ({b})'])
    shared = list(EI) + [['W']]
    if sys_ and env:
        shared += [['expr', f'({a}) /\\ ({b})'], ['Wand', b]]
    elif sys_:
        shared += [['expr', b], ['Wand', b]]
    return EI, SI, shared


def init_bdd(aut, spec, z):
    if spec[0] == 'W':
        return z
    if spec[0] == 'Wand':
        return z & aut.add_expr(spec[1])
    return fam.pred_bdd(aut, spec)


def init_combos(case, tier='quick'):
    """All (qinit, env_init, sys_init) respecting the library's preconditions."""
    EI, SI, shared = init_menus(case)
    T = ['expr', 'TRUE']
    out = []
    for ei in shared:
        out.append((r'\A \A', ei, T))
    for si in SI:
        out.append((r'\E \E', T, si))
    for q in (r'\A \E', r'\E \A'):
        for ei in EI:
            for si in SI:
                out.append((q, ei, si))
    return out


def solve(aut, rabin):
    from omega.games import gr1
    if rabin:
        zk, yki, xkijr = gr1.solve_rabin_game(aut)
        return zk[-1], (zk, yki, xkijr)
    z, yij, xijk = gr1.solve_streett_game(aut)
    return z, (z, yij, xijk)


def is_realizable(z, aut):
    from omega.games import gr1
    with contextlib.redirect_stdout(io.StringIO()):
        return gr1.is_realizable(z, aut)


def make_transducer(aut, iterates, rabin):
    from omega.games import gr1
    with contextlib.redirect_stdout(io.StringIO()):
        if rabin:
            return gr1.make_rabin_transducer(*iterates, aut)
        return gr1.make_streett_transducer(*iterates, aut)


def memory_vars(rabin):
    return ['_hold', '_goal'] if rabin else ['_goal']


def memory_init(case, rabin):
    """Documented initial memory: goal counter 0, hold index 'none'."""
    if rabin:
        return (len(case['P']), 0)
    return (0,)


class Synth:
    """A game case solved, with initial conditions set (fresh automaton)."""

    def __init__(self, case, qinit=None, ei=None, si=None, reuse=False):
        self.case = case
        self.rabin = bool(case['rabin'])
        aut = fam.build_game(case)
        if reuse:
            # history: the same automaton first solved with every variable
            # owned by the component, then ownership edited IN PLACE
            env_names = list(aut.varlist['env'])
            for v in env_names:
                aut.varlist['env'].remove(v)
                aut.varlist['sys'].append(v)
            solve(aut, self.rabin)
            for v in env_names:
                aut.varlist['sys'].remove(v)
            # ... then with the players' variables exchanged (the lists
            # keep their lengths when both own equally many) ...
            sys_names = list(aut.varlist['sys'])
            aut.varlist['sys'][:] = env_names
            aut.varlist['env'][:] = sys_names
            if env_names and sys_names:
                solve(aut, self.rabin)
            aut.varlist['sys'][:] = sys_names
            aut.varlist['env'][:] = env_names
            # ... and once with each mode flag flipped on its own
            aut.plus_one = not aut.plus_one
            solve(aut, self.rabin)
            aut.plus_one = not aut.plus_one
            aut.moore = not aut.moore
            solve(aut, self.rabin)
            aut.moore = not aut.moore
            # ... and an implementation constructed once while the
            # component's action was unconstrained (restored afterwards;
            # what this step itself returns or raises is not judged)
            saved = aut.action['sys']
            aut.action['sys'] = aut.true
            try:
                _, it0 = solve(aut, self.rabin)
                make_transducer(aut, it0, self.rabin)
            except Exception:  # noqa
                pass
            aut.action['sys'] = saved
        self.aut = aut
        self.gm = fam.GameModel(aut, case)
        self.P = [self.gm.state_table(u) for u in aut.win['<>[]']]
        self.G = [self.gm.state_table(u) for u in aut.win['[]<>']]
        self.z, self.iterates = solve(aut, self.rabin)
        self.ztab = self.gm.state_table(self.z)
        self._init_cache = {}
        if qinit is not None:
            self.set_init(qinit, ei, si)

    def _init_pred(self, spec):
        key = repr(spec)
        r = self._init_cache.get(key)
        if r is None:
            u = init_bdd(self.aut, spec, self.z)
            r = (u, self.gm.state_table(u))
            self._init_cache[key] = r
        return r

    def set_init(self, qinit, ei, si):
        aut = self.aut
        aut.qinit = qinit
        self.qinit = qinit
        aut.init['env'], self.EI = self._init_pred(ei)
        aut.init['sys'], self.SI = self._init_pred(si)

    def reference_region(self):
        return self.gm.winning(self.P, self.G, self.rabin)


def reference_verdict(gm, qinit, plus_one, EI, SI, W):
    """The documented initial-condition formula on explicit tables,
    required for every valuation of the rigid constants."""
    ne, ns = gm.ne, gm.ns
    consts = sorted({s[ne + ns:] for s in gm.states})

    def F(s):
        if plus_one:
            return s in SI and (s not in EI or s in W)
        return s not in EI or (s in SI and s in W)
    for c in consts:
        if qinit == r'\A \A':
            ok = all((x + y + c) not in EI or (x + y + c) in W
                     for x in gm.xs for y in gm.ys)
        elif qinit == r'\E \E':
            ok = any((x + y + c) in SI and (x + y + c) in W
                     for x in gm.xs for y in gm.ys)
        elif qinit == r'\A \E':
            ok = all(any(F(x + y + c) for y in gm.ys) for x in gm.xs)
        elif qinit == r'\E \A':
            ok = any(all(F(x + y + c) for x in gm.xs) for y in gm.ys)
        else:
            raise ValueError(qinit)
        if not ok:
            return False
    return True
