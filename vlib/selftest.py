"""Self-tests of the reference models (a failure here is a bug in /verif)."""
import itertools
import os
import random
import shutil
import subprocess
import sys
import tempfile

import networkx as nx

from vlib import arena
from vlib.loop import nontrivial_sccs


def test_children(rnd, n=300):
    """Closed-form Zielonka children = brute-force maximal subsets."""
    bad = 0
    for _ in range(n):
        nv = rnd.randint(1, 6)
        states = [('s', (i,)) for i in range(nv)]
        extra = rnd.sample(['WIN', 'LOSE', ('m', (0,), (0,))],
                           rnd.randint(0, 2))
        V = frozenset(states + extra)
        P = [set((i,) for i in range(nv) if rnd.random() < 0.5)
             for _ in range(rnd.randint(1, 2))]
        G = [set((i,) for i in range(nv) if rnd.random() < 0.5)
             for _ in range(rnd.randint(1, 2))]
        for rabin in (False, True):
            obj = arena.Objective(P, G, rabin)
            a = {frozenset(c) for c in obj.children(V)}
            b = {frozenset(c) for c in arena.brute_children(V, obj.win_set)}
            # closed forms may list non-maximal sets in addition; Zielonka
            # only needs the maximal ones to be present
            maximal_a = {c for c in a if not any(c < d for d in a)}
            if maximal_a != b:
                bad += 1
    return bad


def random_game(rnd, ns, nx_, ny):
    states = [(i,) for i in range(ns)]
    xs = [(i,) for i in range(nx_)]
    ys = [(i,) for i in range(ny)]
    E = {(s, x, y): rnd.random() < 0.8 for s in states for x in xs for y in ys}
    S = {(s, x, y): rnd.random() < 0.7 for s in states for x in xs for y in ys}
    T = {(s, x, y): rnd.choice(states) for s in states for x in xs for y in ys}
    return states, xs, ys, E, S, T


def test_determinacy(rnd, n=300):
    """Streett region of one player = complement of the opponent's Rabin
    region for the complemented condition, both from the same solver."""
    bad = 0
    for _ in range(n):
        states, xs, ys, E, S, T = random_game(rnd, rnd.randint(1, 5), 2, 2)
        P = [set(s for s in states if rnd.random() < 0.5)
             for _ in range(rnd.randint(1, 2))]
        G = [set(s for s in states if rnd.random() < 0.5)
             for _ in range(rnd.randint(1, 2))]
        for moore, plus_one in itertools.product([True, False], repeat=2):
            w = arena.winning_states(
                states, xs, ys, lambda s, x, y: E[s, x, y],
                lambda s, x, y: S[s, x, y], moore, plus_one,
                lambda s, x, y: T[s, x, y], P, G, False)
            # dual: roles swapped
            allst = set(states)
            wd = arena.winning_states(
                states, ys, xs, lambda s, y, x: S[s, x, y],
                lambda s, y, x: E[s, x, y], not moore, not plus_one,
                lambda s, y, x: T[s, x, y],
                [allst - g for g in G], [allst - p for p in P], True)
            if w | wd != allst or w & wd:
                bad += 1
    return bad


def streett_violation(g, P, G):
    for j, Gj in enumerate(G):
        h = g.subgraph([s for s in g if s not in Gj])
        for c in nontrivial_sccs(h):
            if all(any(s not in Pk for s in c) for Pk in P):
                return True
    return False


def rabin_violation(g, P, G):
    for j, Gj in enumerate(G):
        h = g.subgraph([s for s in g if s not in Gj])
        for c in nontrivial_sccs(h):
            return True
    for c in nontrivial_sccs(g):
        if all(any(s not in Pk for s in c) for Pk in P):
            return True
    return False


def spin_says_violated(g, init, P, G, rabin, workdir):
    """Does some infinite path from `init` violate the condition (SPIN)?"""
    nodes = sorted(g)
    idx = {v: i for i, v in enumerate(nodes)}
    lines = ['byte s;', 'init {', '  if']
    for v in init:
        lines.append(f'  :: s = {idx[v]};')
    lines += ['  fi;', '  do']
    for u, v in g.edges():
        lines.append(f'  :: (s == {idx[u]}) -> s = {idx[v]};')
    lines += ['  od', '}']

    def pred(name, S):
        e = ' || '.join(f's == {idx[v]}' for v in S if v in idx) or 'false'
        return f'#define {name} ({e})'
    defs = [pred(f'p{k}', Pk) for k, Pk in enumerate(P)]
    defs += [pred(f'g{j}', Gj) for j, Gj in enumerate(G)]
    pers = ' || '.join(f'<>[] p{k}' for k in range(len(P)))
    rec = ' && '.join(f'[]<> g{j}' for j in range(len(G)))
    good = f'(({pers}) && ({rec}))' if rabin else f'(({pers}) || ({rec}))'
    src = '\n'.join(defs + lines + [f'ltl prop {{ {good} }}'])
    open(os.path.join(workdir, 'm.pml'), 'w').write(src)
    r = subprocess.run('spin -a m.pml && gcc -O1 -w -o pan pan.c && '
                       './pan -a -m100000', shell=True, cwd=workdir,
                       capture_output=True, text=True)
    out = r.stdout + r.stderr
    if 'errors: 0' in out:
        return False
    if 'errors: 1' in out or 'acceptance cycle' in out:
        return True
    raise RuntimeError(out[-800:])


def test_spin(rnd, n=24):
    if not shutil.which('spin') or not shutil.which('gcc'):
        return None
    bad = 0
    tmp = tempfile.mkdtemp(prefix='omega_selftest_', dir='/var/tmp')
    try:
        for i in range(n):
            nn = rnd.randint(2, 6)
            g = nx.DiGraph()
            g.add_nodes_from(range(nn))
            for u in range(nn):
                # no dead ends: SPIN would stutter-extend finite runs
                for v in rnd.sample(range(nn), rnd.randint(1, min(3, nn))):
                    g.add_edge(u, v)
            init = [0]
            reach = nx.descendants(g, 0) | {0}
            g = g.subgraph(reach).copy()
            P = [set(v for v in g if rnd.random() < 0.5)
                 for _ in range(rnd.randint(1, 2))]
            G = [set(v for v in g if rnd.random() < 0.6)
                 for _ in range(rnd.randint(1, 2))]
            rabin = bool(i % 2)
            mine = (rabin_violation if rabin else streett_violation)(g, P, G)
            theirs = spin_says_violated(g, init, P, G, rabin, tmp)
            if mine != theirs:
                bad += 1
                print('DISAGREE', sorted(g.edges()), P, G, rabin, mine,
                      theirs)
    finally:
        shutil.rmtree(tmp, ignore_errors=True)
    return bad


def test_fmodel(rnd, n=2000):
    """C99 division of the evaluator vs. a direct definition."""
    from vlib import fmodel as fm
    bad = 0
    for _ in range(n):
        a, b = rnd.randint(-40, 40), rnd.randint(-40, 40)
        if b == 0:
            continue
        q = int(a / b)
        if fm.c99_div(a, b) != q or fm.c99_mod(a, b) != a - b * q:
            bad += 1
    return bad


def test_timeout():
    """A spinning case is reported as `timeout`; an idle wait is not
    (the limit is CPU time, so machine load cannot raise an alarm)."""
    import time
    from vlib import runner

    class M:
        CASE_TIMEOUT = 0.5

        @staticmethod
        def run_case(case, acc):
            if case == 'spin':
                while True:
                    pass
            time.sleep(1.5)
    acc = runner.Acc()
    runner.run_with_timeout(M, 'spin', acc)
    bad = 0 if [v['kind'] for v in acc.viol] == ['timeout'] else 1
    runner.run_with_timeout(M, 'sleep', acc)
    return bad + (0 if len(acc.viol) == 1 else 1)


def test_crash():
    """A worker that dies (SIGSEGV) is reported as a `crash` violation of
    the case it was running; the other tasks still deliver."""
    import importlib
    from vlib import runner
    mod = importlib.import_module('vlib.props.zz_selftest')
    shards = mod.shards('quick', 0)
    tasks = [shards[i::3] for i in range(3)]
    res = list(runner.run_tasks('zz_selftest', mod, tasks, 2))
    crashes = [v for r in res for v in r['viol']]
    ok = (len(res) == 3 and len(crashes) == 1 and
          crashes[0]['kind'] == 'crash' and
          crashes[0]['case'] == dict(n=4, k=1) and
          sum(r["evals"] for r in res) == 6 + 6 + 1)
    return 0 if ok else 1


def test_watchdog():
    """A case stuck where the in-process timer cannot fire is ended by the
    parent and reported as `timeout`."""
    import importlib
    from vlib import runner
    mod = importlib.import_module('vlib.props.zz_selftest')
    res = list(runner.run_tasks('zz_selftest', mod, [mod.stuck_shards()], 1))
    kinds = [v['kind'] for r in res for v in r['viol']]
    return 0 if kinds == ['timeout'] else 1


def main():
    rnd = random.Random(int(os.environ.get('VERIF_SEED', '0')))
    res = dict(
        zielonka_children=test_children(rnd),
        determinacy=test_determinacy(rnd),
        c99_division=test_fmodel(rnd),
        case_timeout_is_cpu_time=test_timeout(),
        dying_worker_is_reported=test_crash(),
        stuck_worker_is_ended=test_watchdog(),
        scc_criterion_vs_spin=test_spin(rnd))
    for k, v in res.items():
        print(f'{k}: ' + ('skipped (tool missing)' if v is None
                          else f'{v} disagreements'))
    return 1 if any(v for v in res.values()) else 0


if __name__ == '__main__':
    sys.exit(main())
