"""Reference for minimal covers by integer boxes (orthotopes): primes by
brute force, all minimum covers by exhaustive set-cover search."""
import itertools


def all_boxes(ranges):
    """All non-empty boxes; a box is a tuple of (lo, hi) per variable."""
    per = [[(a, b) for a in r for b in r if a <= b] for r in ranges]
    return list(itertools.product(*per))


def in_box(p, box):
    return all(a <= v <= b for v, (a, b) in zip(p, box))


def box_points(box):
    return itertools.product(*[range(a, b + 1) for a, b in box])


def box_leq(b1, b2):
    return all(a2 <= a1 and h1 <= h2 for (a1, h1), (a2, h2) in zip(b1, b2))


def primes(ok, ranges):
    """Maximal boxes all of whose points lie in `ok`."""
    impl = [b for b in all_boxes(ranges)
            if all(p in ok for p in box_points(b))]
    return [b for b in impl
            if not any(b != c and box_leq(b, c) for c in impl)]


def min_covers(points, prime_list):
    """(k, set of frozensets of primes): all minimum-cardinality covers."""
    pts = sorted(points)
    if not pts:
        return 0, {frozenset()}
    cov_by = {p: [i for i, b in enumerate(prime_list) if in_box(p, b)]
              for p in pts}
    if any(not v for v in cov_by.values()):
        return None, set()
    sols = set()

    def search(chosen, k):
        unc = [p for p in pts if not any(i in chosen for i in cov_by[p])]
        if not unc:
            sols.add(frozenset(chosen))
            return
        if len(chosen) >= k:
            return
        p = min(unc, key=lambda q: len(cov_by[q]))
        for i in cov_by[p]:
            search(chosen | {i}, k)
    k = 1
    while True:
        sols.clear()
        search(frozenset(), k)
        sk = {s for s in sols if len(s) == k}
        if sk:
            return k, {frozenset(prime_list[i] for i in s) for s in sk}
        k += 1


def cyclic_core_size(points, prime_list):
    """Points left after iterating essential-prime extraction and row /
    column dominance (0 = the covering problem needs no branching)."""
    bp = {b: frozenset(p for p in points if in_box(p, b)) for b in prime_list}
    pts = set(points)
    prs = set(prime_list)
    changed = True
    while changed and pts:
        changed = False
        for p in list(pts):
            cov = [b for b in prs if p in bp[b]]
            if len(cov) == 1:
                b = cov[0]
                pts -= bp[b]
                prs.discard(b)
                changed = True
                break
        if changed:
            continue
        for b in list(prs):
            if any(c != b and (bp[b] & pts) <= (bp[c] & pts) for c in prs):
                prs.discard(b)
                changed = True
                break
        if changed:
            continue
        for q in list(pts):
            cq = {b for b in prs if q in bp[b]}
            if any(p != q and {b for b in prs if p in bp[b]} <= cq
                   for p in pts):
                pts.discard(q)
                changed = True
                break
    return len(pts)
