"""Game families shared by C01-C05, C11, C12, C19, and the explicit model of a
game read out from the very BDDs handed to the library."""
import itertools

from vlib import readout as ro
from vlib import arena


PR = "'"


def prime(v):
    return v + PR


# ---------------------------------------------------------------- building

def make_automaton(case):
    """Automaton with declarations and back end of `case`; nothing else."""
    import omega.symbolic.temporal as trl
    aut = trl.Automaton()
    if case.get('backend', 'cudd') == 'autoref':
        import dd.autoref
        aut.bdd = dd.autoref.BDD()
    else:
        import dd.cudd
        assert isinstance(aut.bdd, dd.cudd.BDD), type(aut.bdd)
    env = [(v, _hint(h)) for v, h in case['env']]
    sys_ = [(v, _hint(h)) for v, h in case['sys']]
    const = [(v, _hint(h)) for v, h in case.get('const', [])]
    if env or sys_:
        aut.declare_variables(**dict(env + sys_))
    if const:
        aut.declare_constants(**dict(const))
    aut.varlist = dict(env=[v for v, _ in env], sys=[v for v, _ in sys_])
    aut.init['env'] = aut.true
    aut.init['sys'] = aut.true
    aut.action['env'] = aut.true
    aut.action['sys'] = aut.true
    aut.qinit = r'\A \A'
    aut.moore = True
    aut.plus_one = True
    return aut


def _hint(h):
    return 'bool' if h == 'bool' else tuple(h)


def pred_bdd(aut, spec):
    """BDD of a predicate spec: ['tt', names, mask] or ['expr', str]."""
    kind = spec[0]
    if kind == 'expr':
        return aut.add_expr(spec[1])
    assert kind in ('tt', 'ttneg'), spec
    _, names, mask = spec
    rd = ro.Reader(aut, names)
    space = rd.space()
    if kind == 'ttneg':
        mask = ~mask & ((1 << len(space)) - 1)
    return rd.from_rows(ro.mask_rows(space, mask))


def build_game(case):
    """Automaton fully populated from a game case."""
    aut = make_automaton(case)
    aut.action['env'] = pred_bdd(aut, case['E'])
    aut.action['sys'] = pred_bdd(aut, case['S'])
    aut.win['<>[]'] = [pred_bdd(aut, p) for p in case['P']]
    aut.win['[]<>'] = [pred_bdd(aut, g) for g in case['G']]
    aut.moore = bool(case['moore'])
    aut.plus_one = bool(case['plus_one'])
    return aut


class GameModel:
    """Explicit tables of a game, read out from the automaton's BDDs."""

    def __init__(self, aut, case, env_action=None, sys_action=None):
        self.env = [v for v, _ in case['env']]
        self.sys = [v for v, _ in case['sys']]
        self.const = [v for v, _ in case.get('const', [])]
        self.svars = self.env + self.sys + self.const
        self.ne, self.ns = len(self.env), len(self.sys)
        self.srd = ro.Reader(aut, self.svars)
        self.states = self.srd.space()
        self.xs = list(itertools.product(
            *[ro.var_range(aut, v) for v in self.env]))
        self.ys = list(itertools.product(
            *[ro.var_range(aut, v) for v in self.sys]))
        self.trd = ro.Reader(
            aut, self.svars + [prime(v) for v in self.env] +
            [prime(v) for v in self.sys])
        ea = aut.action['env'] if env_action is None else env_action
        sa = aut.action['sys'] if sys_action is None else sys_action
        self.Etab = self.trd.table(ea)
        self.Stab = self.trd.table(sa)
        self.moore = bool(aut.moore)
        self.plus_one = bool(aut.plus_one)

    def E(self, s, x, y):
        return (s + x + y) in self.Etab

    def S(self, s, x, y):
        return (s + x + y) in self.Stab

    def nxt(self, s, x, y):
        return x + y + s[self.ne + self.ns:]

    def state_table(self, u):
        return self.srd.table(u)

    def winning(self, P, G, rabin, moore=None, plus_one=None):
        return arena.winning_states(
            self.states, self.xs, self.ys, self.E, self.S,
            self.moore if moore is None else moore,
            self.plus_one if plus_one is None else plus_one,
            self.nxt, P, G, rabin)

    def cpre(self, target, moore=None, plus_one=None):
        return arena.cpre(
            self.states, self.xs, self.ys, self.E, self.S,
            self.moore if moore is None else moore,
            self.plus_one if plus_one is None else plus_one,
            self.nxt, target)


# ---------------------------------------------------------------- family A
# x: Boolean environment variable, y: Boolean component variable.
# Three support patterns, each enumerated over all 16 x 16 function pairs.

A_CLASSES = {
    'A1': (['x', "x'"], ['y', "y'"]),
    'A2': (['y', "x'"], ["x'", "y'"]),    # Mealy reads
    'A3': (["x'", "y'"], ['x', "y'"]),    # environment reads y'
    # three-bit supports: 256 functions on one side, all 16 on the other
    'A4': (['x', 'y', "x'"], ['y', "y'"]),
    'A5': (['x', "x'"], ['x', 'y', "y'"]),
    'A6': (['x', "x'"], ["x'", 'y', "y'"]),   # Mealy component
}
A_BASE = ('A1', 'A2', 'A3')
A_WIDE = ('A4', 'A5', 'A6')


def _n_functions(vars_):
    return 1 << (1 << len(vars_))


def _spread(n, seed, k=16):
    """k of the n function indices, spread over the range from a
    seed-selected offset (all of them if n <= k)."""
    if n <= k:
        return list(range(n))
    stride = n // k
    off = (seed * 7 + 3) % stride
    return [off + i * stride for i in range(k)]
A_DECL = dict(env=[['x', 'bool']], sys=[['y', 'bool']], const=[])
MODES = [(True, True), (True, False), (False, True), (False, False)]
# state predicates over (x, y): rows ordered (F,F),(F,T),(T,F),(T,T)
# -> mask bit i.   x = 0b1100, y = 0b1010
_PAIRS = [(0b1100, 0b0010), (0b1010, 0b0100), (0b0110, 0b1000),
          (0b1001, 0b0001), (0b0011, 0b1110), (0b0101, 0b1011),
          (0b0111, 0b1101)]


def a_pred_menu(tier, seed, which):
    """Menu of state-predicate masks for persistence (0) / recurrence (1)."""
    if tier == 'thorough':
        return list(range(16))
    a, b = _PAIRS[(seed + 3 * which) % len(_PAIRS)]
    return [0, 15, a, b]


def a_shards(tier, seed, backends=('cudd',), classes=A_BASE):
    out = []
    for cls in classes:
        evars, svars = A_CLASSES[cls]
        nE, nS = _n_functions(evars), _n_functions(svars)
        if cls in A_WIDE and tier != 'thorough':
            # complete over the 16-function side, a spread of 16 on the other
            Es, Ss = _spread(nE, seed, 8), _spread(nS, seed + 1, 8)
        else:
            Es, Ss = list(range(nE)), list(range(nS))
            if cls in A_WIDE:
                # thorough: all 256 x 16, with the quick lists of predicates
                pass
        for be in backends:
            for e in Es:
                if tier == 'thorough' and cls not in A_WIDE:
                    for s in Ss:
                        out.append(dict(fam=cls, backend=be, E=e, S=[s],
                                        tier=tier, seed=seed))
                else:
                    for i in range(0, len(Ss), 16):
                        out.append(dict(
                            fam=cls, backend=be, E=e, S=Ss[i:i + 16],
                            tier='quick' if cls in A_WIDE else tier,
                            seed=seed))
    return out


def a_lists(tier, seed, rabin):
    """Lists of persistence / recurrence predicates (masks over (x, y)).

    Singles and pairs, so that "all numbers of predicates" is exercised;
    constants that trivialise the objective are kept to one each.
    """
    if tier == 'thorough':
        six = [0b1100, 0b1010, 0b0110, 0b0010, 0b0100, 0b1001]
        P = [[m] for m in range(16)] + \
            [list(c) for c in itertools.combinations(six, 2)] + \
            [[0b0010, 0b0100, 0b1000]]
        G = [[m] for m in range(16)] + \
            [list(c) for c in itertools.combinations(six[:4], 2)] + \
            [[0b1100, 0b0011, 0b0110]]
        return P, G
    a, b = _PAIRS[seed % len(_PAIRS)]
    c, d = _PAIRS[(seed + 3) % len(_PAIRS)]
    e = _PAIRS[(seed + 5) % len(_PAIRS)][0]
    if rabin:
        P = [[15], [a], [b], [a, b], [b, c], [d, 0]]
        G = [[15], [c], [d, e]]
    else:
        # P = TRUE makes it a pure safety game, G = FALSE a pure
        # persistence game
        P = [[0], [15], [a], [a, b], [b, d]]
        G = [[15], [0], [c], [c, e], [d, a]]
    return P, G


def a_games(shard, rabin=False, modes=MODES):
    """Game cases of a family-A shard (all P, G lists of the tier's menus)."""
    cls = shard['fam']
    evars, svars = A_CLASSES[cls]
    if shard.get('Pmenu'):
        Pl = [[m] for m in shard['Pmenu']]
        Gl = [[m] for m in shard['Gmenu']]
    else:
        Pl, Gl = a_lists(shard['tier'], shard['seed'], rabin)
    for s in shard['S']:
        for P in Pl:
            for G in Gl:
                for moore, plus_one in modes:
                    c = dict(A_DECL)
                    c.update(
                        fam=cls, backend=shard['backend'],
                        E=['tt', evars, shard['E']], S=['tt', svars, s],
                        P=[['tt', ['x', 'y'], p] for p in P],
                        G=[['tt', ['x', 'y'], g] for g in G],
                        moore=moore, plus_one=plus_one, rabin=rabin)
                    yield c


# ---------------------------------------------------------------- family B
# breadth: integer variables, several variables per player, a missing
# player, rigid constants; formulas go through the parser and bitblaster.

def _lists(menu, pairs):
    return [[m] for m in menu] + [list(p) for p in pairs]


B_SHAPES = {
    'B1': dict(
        env=[['x', [0, 2]]], sys=[['y', 'bool']], const=[],
        E=["TRUE", "x' <= 2", "x' = x", "(x < 2) => (x' = x + 1)",
           "(x' # 3) /\\ (y => (x' = 0))", "y' => (x' = 0)",
           "x' > x", "FALSE"],
        S=["TRUE", "y' <=> (x = 2)", "y' <=> (x' = 2)", "y => ~ y'",
           "(x = 3) => (y /\\ ~ y)", "y' \\/ (x' > 0)",
           "(x = 1) => y'", "FALSE"],
        P=["FALSE", "y", "x = 0", "x <= 2"],
        G=["TRUE", "y", "x = 2", "~ y /\\ (x # 1)"],
        PP=[("y", "x = 0"), ("FALSE", "FALSE"), ("x = 0", "x = 0")],
        GG=[("y", "x = 2"), ("TRUE", "TRUE"), ("x = 2", "~ y")]),
    'B2': dict(
        env=[['x', 'bool']], sys=[['y', [-1, 1]]], const=[],
        E=["TRUE", "x' <=> ~ x", "(y = -2) => x'", "(y' = 1) => ~ x'",
           "x => x'", "FALSE"],
        S=["TRUE", "y' = y", "(y' >= -1) /\\ (y' <= 1)",
           "(x => (y' = y + 1)) /\\ (y' <= 1)", "y' = -2 => x",
           "x' => (y' = -1)", "(y' - y <= 1) /\\ (y - y' <= 1)", "FALSE"],
        P=["FALSE", "y = 1", "y < 0", "x"],
        G=["TRUE", "y = 1", "y = -2", "x /\\ (y = 0)"],
        PP=[("y = 1", "y < 0"), ("x", "x")],
        GG=[("y = 1", "y = -1"), ("y = 0", "y = 0")]),
    'B3': dict(
        env=[['x', 'bool']], sys=[['y', 'bool'], ['z', 'bool']], const=[],
        E=["TRUE", "x' <=> (y /\\ z)", "x' => ~ x", "z' => x'",
           "x' <=> ~ x", "FALSE"],
        S=["TRUE", "(y' <=> z) /\\ (z' <=> ~ y)", "y' => z'",
           "(y' <=> x) /\\ (z' <=> x')", "~ (y' /\\ z') /\\ (x => y')",
           "(y <=> y') \\/ (z <=> z')", "FALSE"],
        P=["FALSE", "y", "y <=> z", "x"],
        G=["TRUE", "y /\\ z", "~ y /\\ x", "z"],
        PP=[("y", "~ y")],
        GG=[("y", "z"), ("y /\\ ~ z", "~ y /\\ z")]),
    'B4': dict(
        env=[], sys=[['y', [0, 2]]], const=[],
        E=["TRUE", "y < 3", "y' # 3", "y # y'", "FALSE"],
        S=["TRUE", "y' = y + 1", "(y' = y + 1) \\/ (y' = 0)", "y' <= y",
           "(y' = y) \\/ (y' = y - 1)", "y' # 3", "FALSE"],
        P=["FALSE", "y = 2", "y <= 1"],
        G=["TRUE", "y = 0", "y = 2", "y = 3"],
        PP=[("y = 0", "y = 1")],
        GG=[("y = 0", "y = 2")]),
    'B5': dict(
        env=[['x', [0, 2]]], sys=[], const=[],
        E=["TRUE", "x' = x", "x' <= 2", "(x' = x + 1) \\/ (x' = 0)",
           "x' > x", "FALSE"],
        S=["TRUE", "x # 3", "x' # 3", "x' >= x", "FALSE"],
        P=["FALSE", "x = 0", "x <= 2"],
        G=["TRUE", "x = 2", "x = 0"],
        PP=[("x = 0", "x = 1")],
        GG=[("x = 0", "x = 2")]),
    'B6': dict(
        env=[['x', 'bool']], sys=[['y', 'bool']], const=[['c', 'bool']],
        E=["TRUE", "x' <=> c", "c => (x' <=> ~ x)", "y' => x'",
           "x' => ~ x", "FALSE"],
        S=["TRUE", "y' <=> (x /\\ c)", "c => (y' <=> ~ y)",
           "y' <=> x'", "c /\\ ~ y'", "FALSE"],
        P=["FALSE", "c", "y", "x /\\ ~ c"],
        G=["TRUE", "y", "c /\\ x", "~ y \\/ c"],
        PP=[("y", "c")],
        GG=[("y", "~ y"), ("c", "x")]),
    'B7': dict(    # integer rigid constant
        env=[['x', 'bool']], sys=[['y', [0, 2]]], const=[['k', [0, 2]]],
        E=["TRUE", "x' <=> (y < k)", "x => x'", "FALSE"],
        S=["TRUE", "y' >= y", "(y' = y + 1) \\/ (y' = y)",
           "(y' = y + 1) \\/ (y' = 0 /\\ x)", "y' <= k", "FALSE"],
        P=["FALSE", "y = k", "y <= k", "TRUE"],
        G=["TRUE", "y = k", "y > k", "x /\\ (y = 0)"],
        PP=[("y = k", "y = 0")],
        GG=[("y = k", "y = 0")]),
}


def b_shards(tier, seed, backends=('cudd',)):
    out = []
    for name, sh in B_SHAPES.items():
        for be in backends:
            for ei in range(len(sh['E'])):
                out.append(dict(fam=name, backend=be, E=ei, tier=tier,
                                seed=seed))
    return out


def b_games(shard, rabin=False, modes=MODES):
    sh = B_SHAPES[shard['fam']]
    tier, seed = shard['tier'], shard['seed']
    Pl = _lists(sh['P'], sh['PP'])
    Gl = _lists(sh['G'], sh['GG'])
    Sm = list(sh['S'])
    if tier != 'thorough':
        # complete over a seed-rotated sub-menu
        def rot(lst, k, n):
            k %= len(lst)
            lst = lst[k:] + lst[:k]
            return lst[:n]
        Pl = rot(Pl, seed, 4)
        Gl = rot(Gl, seed + 1, 4)
        Sm = rot(Sm, seed, 6)
    e = sh['E'][shard['E']]
    for s in Sm:
        for P in Pl:
            for G in Gl:
                for moore, plus_one in modes:
                    yield dict(
                        fam=shard['fam'], backend=shard['backend'],
                        env=sh['env'], sys=sh['sys'], const=sh['const'],
                        E=['expr', e], S=['expr', s],
                        P=[['expr', p] for p in P],
                        G=[['expr', g] for g in G],
                        moore=moore, plus_one=plus_one, rabin=rabin)


def game_shards(tier, seed, autoref='A1'):
    """All shards of families A and B for the given tier.

    Back ends: CUDD everywhere; autoref on class A1 (quick) or all of A
    with the quick predicate menu plus B (thorough).
    """
    sh = a_shards(tier, seed) + b_shards(tier, seed)
    sh += a_shards(tier, seed, classes=A_WIDE)
    if tier == 'thorough':
        extra = a_shards('quick', seed, backends=('autoref',))
        sh += extra + b_shards('quick', seed, backends=('autoref',))
    else:
        sh += a_shards(tier, seed, backends=('autoref',), classes=('A1',))
    return sh


def games(shard, rabin=False, modes=MODES):
    if shard['fam'].startswith('A'):
        return a_games(shard, rabin, modes)
    return b_games(shard, rabin, modes)


def ownership_changes(aut, case):
    """Hand the first environment variable to the component, then the first
    component variable to the environment, then exchange all variables of
    the two players, editing `aut.varlist` IN PLACE;
    yields (moved variable, destination, case with the new ownership)."""
    hints = dict((n, h) for n, h in case['env'] + case['sys'])
    for src, dst in (('env', 'sys'), ('sys', 'env')):
        if not aut.varlist[src]:
            continue
        v = aut.varlist[src][0]
        aut.varlist[src].remove(v)
        aut.varlist[dst].append(v)
        c2 = dict(case)
        c2['env'] = [[n, hints[n]] for n in aut.varlist['env']]
        c2['sys'] = [[n, hints[n]] for n in aut.varlist['sys']]
        yield v, dst, c2
    # finally the two players exchange ALL their variables (list lengths
    # unchanged when both own equally many)
    if aut.varlist['env'] and aut.varlist['sys']:
        e, s_ = list(aut.varlist['env']), list(aut.varlist['sys'])
        aut.varlist['env'][:] = s_
        aut.varlist['sys'][:] = e
        c2 = dict(case)
        c2['env'] = [[n, hints[n]] for n in aut.varlist['env']]
        c2['sys'] = [[n, hints[n]] for n in aut.varlist['sys']]
        yield 'all', 'exchanged', c2


def game_sequences(shard, rabin=False, length=4):
    """Sequences of games sharing declarations and actions, to be solved
    one after the other in one automaton: modes rotated, liveness changed."""
    buf = {}
    for c in games(shard, rabin):
        key = (repr(c['E']), repr(c['S']))
        buf.setdefault(key, []).append(c)
    for key, lst in buf.items():
        # lst is ordered ... P, G, mode (mode fastest); take steps so that
        # consecutive steps differ in mode and, every other step, in P/G
        n = len(lst)
        k = 0
        for start in range(0, n, length):
            chunk = lst[start:start + length]
            if len(chunk) < 2:
                continue
            rot = (start // length) % len(chunk)
            chunk = chunk[rot:] + chunk[:rot]
            if (start // length) % 2 and start + 2 * length <= n:
                # interleave with the next block (different P/G)
                nxt = lst[start + length:start + 2 * length]
                chunk = [x for pair in zip(chunk, nxt) for x in pair][:length + 2]
            base = dict(chunk[0])
            for f in ('P', 'G', 'moore', 'plus_one'):
                base.pop(f)
            base['steps'] = [dict(P=c['P'], G=c['G'], moore=c['moore'],
                                  plus_one=c['plus_one']) for c in chunk]
            yield base


def scope_text(tier, seed):
    return dict(
        familyA='x Boolean env, y Boolean component; classes A1 E(x,x\')/S(y,y\'), '
                'A2 E(y,x\')/S(x\',y\'), A3 E(x\',y\')/S(x,y\'): all 16x16 '
                'function pairs per class; A4 E(x,y,x\')/S(y,y\'), A5 '
                'E(x,x\')/S(x,y,y\'), A6 E(x,x\')/S(x\',y,y\'): 256x16 pairs '
                '(thorough all; quick a seed-rotated spread of 8 x 8)',
        P_lists_streett=a_lists(tier, seed, False)[0],
        G_lists_streett=a_lists(tier, seed, False)[1],
        P_lists_rabin=a_lists(tier, seed, True)[0],
        G_lists_rabin=a_lists(tier, seed, True)[1],
        familyB={k: dict(env=v['env'], sys=v['sys'], const=v['const'],
                         nE=len(v['E']), nS=len(v['S']))
                 for k, v in B_SHAPES.items()},
        modes='moore x plus_one (4)')
