"""Anchored past-LTL semantics on finite traces, until/always/eventually on
lassos, and compilation of (omega-produced) formulas to Python callables."""
import itertools

from vlib import fmodel as fm

PAST_UNARY = ['-X', '--X', '-[]', '-<>']
BOOL_BIN = ['/\\', '\\/', '=>', '<=>']


def sem(t, trace, i, memo=None):
    """Truth value of past formula `t` at position `i` of `trace`
    (list of dicts) under the anchored semantics."""
    if memo is None:
        memo = {}
    key = (id(t), i)
    if key in memo:
        return memo[key]
    r = _sem(t, trace, i, memo)
    memo[key] = r
    return r


def _sem(t, trace, i, memo):
    if isinstance(t, str):
        if t == 'TRUE':
            return True
        if t == 'FALSE':
            return False
        if t.lstrip('-').isdigit():
            return int(t)
        return trace[i][t]
    op = fm.CANON.get(t[0], t[0])
    S = lambda x, j=i: sem(x, trace, j, memo)  # noqa
    if op == '~':
        return not S(t[1])
    if op == '/\\':
        return S(t[1]) and S(t[2])
    if op == '\\/':
        return S(t[1]) or S(t[2])
    if op == '=>':
        return (not S(t[1])) or S(t[2])
    if op == '<=>':
        return S(t[1]) == S(t[2])
    if op == '^':
        return S(t[1]) != S(t[2])
    if op == '-X':
        return True if i == 0 else S(t[1], i - 1)
    if op == '--X':
        return False if i == 0 else S(t[1], i - 1)
    if op == '-[]':
        return all(S(t[1], j) for j in range(i + 1))
    if op == '-<>':
        return any(S(t[1], j) for j in range(i + 1))
    if op == 'S':
        return any(S(t[2], j) and all(S(t[1], k) for k in range(j + 1, i + 1))
                   for j in range(i + 1))
    if op in fm._CMP:
        return fm._CMP[op](S(t[1]), S(t[2]))
    if op in fm._ARITH:
        return fm._ARITH[op](S(t[1]), S(t[2]))
    if op == 'ite':
        return S(t[2]) if S(t[1]) else S(t[3])
    raise ValueError(f'no past semantics for {op!r}')


def sem_lasso(t, stem, loop, i, memo=None):
    """Future (and Boolean) formula on the infinite word stem.loop^omega;
    position i < len(stem) + len(loop) (positions in the loop repeat)."""
    n = len(stem) + len(loop)
    word = stem + loop
    if memo is None:
        memo = {}
    key = (id(t), i)
    if key in memo:
        return memo[key]

    def nxt(j):
        return j + 1 if j + 1 < n else len(stem)

    def reach(j):
        """positions visited from j on (finite set, in order)."""
        out = []
        while j not in out:
            out.append(j)
            j = nxt(j)
        return out
    S = lambda x, j=i: sem_lasso(x, stem, loop, j, memo)  # noqa
    if isinstance(t, str):
        r = (True if t == 'TRUE' else False if t == 'FALSE'
             else word[i][t])
    else:
        op = fm.CANON.get(t[0], t[0])
        if op == '~':
            r = not S(t[1])
        elif op == '/\\':
            r = S(t[1]) and S(t[2])
        elif op == '\\/':
            r = S(t[1]) or S(t[2])
        elif op == '=>':
            r = (not S(t[1])) or S(t[2])
        elif op == '<=>':
            r = S(t[1]) == S(t[2])
        elif op == '[]':
            r = all(S(t[1], j) for j in reach(i))
        elif op == '<>':
            r = any(S(t[1], j) for j in reach(i))
        elif op == 'U':
            r = False
            for j in reach(i):
                if S(t[2], j):
                    r = True
                    break
                if not S(t[1], j):
                    break
        else:
            raise ValueError(op)
    memo[key] = r
    return r


# ----------------------------------------------------------- compilation

def to_python(t):
    """Python expression (over dict `e`) of a generic Boolean/integer tree
    without temporal operators; primes read the key name + \"'\"."""
    return _py(t, False)


def _py(t, primed):
    if isinstance(t, str):
        if t == 'TRUE':
            return 'True'
        if t == 'FALSE':
            return 'False'
        if t.lstrip('-').isdigit():
            return f'({t})'
        return 'e[%r]' % (t + "'" if primed else t)
    op = fm.CANON.get(t[0], t[0])
    if op in ("'", 'X'):
        return _py(t[1], True)
    P = lambda x: _py(x, primed)  # noqa
    if op == '~':
        return f'(not {P(t[1])})'
    if op == '/\\':
        return f'({P(t[1])} and {P(t[2])})'
    if op == '\\/':
        return f'({P(t[1])} or {P(t[2])})'
    if op == '=>':
        return f'((not {P(t[1])}) or {P(t[2])})'
    if op == '<=>':
        return f'({P(t[1])} == {P(t[2])})'
    if op == '^':
        return f'({P(t[1])} != {P(t[2])})'
    if op in ('=',):
        return f'({P(t[1])} == {P(t[2])})'
    if op in ('#', '!=', '/='):
        return f'({P(t[1])} != {P(t[2])})'
    if op in ('<', '>', '>='):
        return f'({P(t[1])} {op} {P(t[2])})'
    if op in ('<=', '=<'):
        return f'({P(t[1])} <= {P(t[2])})'
    if op in ('+', '-', '*'):
        return f'({P(t[1])} {op} {P(t[2])})'
    if op == 'ite':
        return f'({P(t[2])} if {P(t[1])} else {P(t[3])})'
    raise ValueError(f'cannot compile {op!r}')


def compile_tree(t):
    return eval('lambda e: ' + to_python(t))


def compile_str(s):
    return compile_tree(fm.parse(s))


# ------------------------------------------------------------ generation

def formulas(atoms, depth, unary, binary):
    """All formulas up to `depth` (list of generic trees, depth-ordered)."""
    levels = [list(atoms)]
    allf = list(atoms)
    for d in range(depth):
        new = []
        prev_all = list(allf)
        last = levels[-1]
        for op in unary:
            for a in last:
                new.append((op, a))
        lastset = set(map(repr, last))
        for op in binary:
            for a, b in itertools.product(prev_all, prev_all):
                if repr(a) in lastset or repr(b) in lastset:
                    new.append((op, a, b))
        levels.append(new)
        allf.extend(new)
    return allf
