#!/usr/bin/env python3
"""Run quick checks against behaviour-preserving patches (false-alarm test).

  benign.py <dir with refactor_*.diff> <check ids...>

Each patch is applied to a scratch copy of /repo (OMEGA_SRC), the test-suite
and the listed quick checks are run there; any VIOLATION is printed.
"""
import glob, json, os, subprocess, sys
VERIF = os.path.dirname(os.path.dirname(os.path.abspath(__file__)))


def sh(cmd, cwd=None, env=None):
    e = dict(os.environ)
    e.update(env or {})
    p = subprocess.run(cmd, shell=True, cwd=cwd, env=e, capture_output=True,
                       text=True)
    return p.returncode, p.stdout + p.stderr


def main():
    d = sys.argv[1]
    checks = sys.argv[2:]
    scratch = f'/var/tmp/omega_benign_scratch_{os.getpid()}'
    for patch in sorted(glob.glob(os.path.join(d, 'refactor_*.diff')) + glob.glob(os.path.join(d, 'change_*.diff'))):
        sh(f'rm -rf {scratch}; mkdir -p {scratch}')
        sh(f'git -C /repo archive HEAD | tar -x -C {scratch}')
        rc, out = sh(f'git apply {patch}', cwd=scratch)
        if rc:
            print(os.path.basename(patch), 'DOES NOT APPLY', out[-200:])
            continue
        rc, out = sh('/venv/bin/python -m pytest -q -p no:cacheprovider '
                     '--timeout=900 tests/', cwd=scratch,
                     env=dict(PYTHONPATH=scratch))
        print(os.path.basename(patch), 'tests:',
              out.strip().splitlines()[-1] if out.strip() else rc, flush=True)
        for c in checks:
            rc, out = sh(f'./check {c} --tier quick', cwd=VERIF,
                         env=dict(VERIF_NO_EVIDENCE='1', OMEGA_SRC=scratch))
            kinds = sorted({ln.split('kind=')[1].split()[0]
                            for ln in out.splitlines() if 'kind=' in ln})
            print('   ', c, 'rc', rc, 'SILENT' if rc == 0 else
                  f'ALARM {kinds}', flush=True)
            if rc not in (0,):
                print('\n'.join(out.splitlines()[-12:])[:1500])
    sh(f'rm -rf {scratch}')


if __name__ == '__main__':
    main()
