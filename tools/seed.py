#!/usr/bin/env python3
"""Manage seeded property-breaking changes (never committed to /repo).

  seed.py import <PID> <k> <worktree>    copy seed/{mutant,demo,note}_k.* into
                                          /verif/seeded/<PID>_<k>/ and verify:
                                          demo passes on pristine HEAD, fails
                                          with the patch, test-suite passes
  seed.py run <name> <check id>...       apply the patch to /repo, run the
                                          quick checks, revert; record result
"""
import json, os, shutil, subprocess, sys, time

VERIF = os.path.dirname(os.path.dirname(os.path.abspath(__file__)))
PY = '/venv/bin/python'


def sh(cmd, cwd=None, env=None, timeout=3600):
    e = dict(os.environ)
    if env:
        e.update(env)
    p = subprocess.run(cmd, shell=True, cwd=cwd, env=e, capture_output=True,
                       text=True, timeout=timeout)
    return p.returncode, (p.stdout + p.stderr)


def do_import(pid, k, wt, sub='seed', as_k=None):
    name = f'{pid}_{as_k or k}'
    d = os.path.join(VERIF, 'seeded', name)
    os.makedirs(d, exist_ok=True)
    shutil.copy(f'{wt}/{sub}/mutant_{k}.diff', f'{d}/patch.diff')
    shutil.copy(f'{wt}/{sub}/demo_{k}.py', f'{d}/demo.py')
    note = open(f'{wt}/{sub}/note_{k}.md').read()
    open(f'{d}/note.md', 'w').write(note)
    scratch = f'/tmp/sv_{name}'
    sh(f'git -C /repo worktree remove --force {scratch}')
    rc, out = sh(f'git -C /repo worktree add -q --detach {scratch} HEAD')
    assert rc == 0, out
    env = dict(PYTHONPATH=scratch)
    ran = []
    try:
        rc0, o0 = sh(f'{PY} {d}/demo.py', cwd=scratch, env=env)
        ran.append(dict(cmd='demo on pristine HEAD', rc=rc0))
        rca, oa = sh(f'git apply {d}/patch.diff', cwd=scratch)
        ran.append(dict(cmd='git apply patch.diff', rc=rca, out=oa[-300:]))
        rc1, o1 = sh(f'{PY} {d}/demo.py', cwd=scratch, env=env)
        ran.append(dict(cmd='demo with patch', rc=rc1, tail=o1[-400:]))
        rct, ot = sh(f'{PY} -m pytest -q -p no:cacheprovider --timeout=900 '
                     f'tests/', cwd=scratch, env=env)
        ran.append(dict(cmd='pytest tests/ with patch', rc=rct,
                        tail=ot.strip().splitlines()[-1] if ot.strip() else ''))
    finally:
        sh(f'git -C /repo worktree remove --force {scratch}')
    head = sh('git -C /repo rev-parse --short HEAD')[1].strip()
    ok = (rc0 == 0 and rca == 0 and rc1 != 0 and rct == 0)
    meta = dict(name=name, property=pid, base_commit=head, confirmed=ok,
                needs=note.strip()[:1500], ran=ran, detected_by={},
                date=time.strftime('%Y-%m-%d'))
    json.dump(meta, open(f'{d}/meta.json', 'w'), indent=1)
    print(name, 'CONFIRMED' if ok else 'NOT CONFIRMED',
          [(r['cmd'], r['rc']) for r in ran])
    return ok


def do_run(name, checks, tier='quick'):
    d = os.path.join(VERIF, 'seeded', name)
    meta = json.load(open(f'{d}/meta.json'))
    # a scratch copy of /repo's HEAD (OMEGA_SRC): /repo itself stays
    # untouched, so other runs against it are not disturbed
    scratch = f'/var/tmp/omega_seed_run_{os.getpid()}'
    sh(f'rm -rf {scratch}; mkdir -p {scratch}')
    sh(f'git -C /repo archive HEAD | tar -x -C {scratch}')
    rc, out = sh(f'git apply {d}/patch.diff', cwd=scratch)
    assert rc == 0, out
    try:
        for c in checks:
            t = time.time()
            rc, out = sh(f'./check {c} --tier {tier}', cwd=VERIF,
                         env=dict(VERIF_NO_EVIDENCE='1', OMEGA_SRC=scratch))
            kinds = sorted({ln.split('kind=')[1].split()[0]
                            for ln in out.splitlines() if 'kind=' in ln})
            meta['detected_by'][f'{c}:{tier}'] = dict(
                rc=rc, detected=(rc == 1 and 'VIOLATION' in out),
                kinds=kinds, wall=round(time.time() - t, 1))
            print(name, c, tier, 'rc', rc, 'DETECTED' if rc == 1 else
                  ('MISSED' if rc == 0 else 'ERROR'), kinds)
            if rc not in (0, 1):
                print(out[-1500:])
    finally:
        sh(f'rm -rf {scratch}')
        # replay files of seeded runs are not kept
    json.dump(meta, open(f'{d}/meta.json', 'w'), indent=1)


def do_runall(only=None):
    """Re-run every seed against the check(s) that detected it, on a scratch
    copy of /repo (OMEGA_SRC), so /repo itself is not touched."""
    base = os.path.join(VERIF, 'seeded')
    scratch = f'/var/tmp/omega_seed_scratch_{os.getpid()}'
    bad = []
    for name in sorted(os.listdir(base)):
        if only and not any(name.startswith(o) for o in only.split(',')):
            continue
        d = os.path.join(base, name)
        m = json.load(open(f'{d}/meta.json'))
        checks = sorted({k.split(':')[0] for k, v in m['detected_by'].items()
                         if v['detected']}) or [m['property']]
        own = m['property']
        if own in checks:
            checks = [own]
        sh(f'rm -rf {scratch}; mkdir -p {scratch}')
        rc, out = sh(f'git -C /repo archive HEAD | tar -x -C {scratch}')
        rc, out = sh(f'git apply {d}/patch.diff', cwd=scratch)
        if rc != 0:
            print(name, 'PATCH DOES NOT APPLY TO HEAD', flush=True)
            bad.append((name, 'apply', rc))
            continue
        if m.get('out_of_scope'):
            print(name, 'out of scope:', m['out_of_scope'][:60], flush=True)
            continue
        for c in checks[:1]:
            rc, out = sh(f'./check {c} --tier quick --fail-fast', cwd=VERIF,
                         env=dict(VERIF_NO_EVIDENCE='1', OMEGA_SRC=scratch))
            ok = rc == 1 and 'VIOLATION' in out
            print(name, c, 'rc', rc, 'DETECTED' if ok else 'MISSED/ERROR',
                  flush=True)
            if not ok:
                bad.append((name, c, rc))
    sh(f'rm -rf {scratch}')
    print('not detected:', bad)


def do_status():
    base = os.path.join(VERIF, 'seeded')
    for name in sorted(os.listdir(base)):
        mp = os.path.join(base, name, 'meta.json')
        if not os.path.exists(mp):
            continue
        m = json.load(open(mp))
        det = [k for k, v in m['detected_by'].items() if v['detected']]
        mis = [k for k, v in m['detected_by'].items() if not v['detected']]
        print(f"{name:10s} confirmed={m['confirmed']} detected_by={det} "
              f"missed_by={mis}")


if __name__ == '__main__':
    if sys.argv[1] == 'runall':
        do_runall(sys.argv[2] if len(sys.argv) > 2 else None)
    elif sys.argv[1] == 'status':
        do_status()
    elif sys.argv[1] == 'import':
        sys.exit(0 if do_import(*sys.argv[2:7]) else 1)
    elif sys.argv[1] == 'run':
        tier = 'quick'
        args = sys.argv[2:]
        if '--thorough' in args:
            args.remove('--thorough')
            tier = 'thorough'
        do_run(args[0], args[1:], tier)
