#!/bin/bash
# Offline setup: nothing to build. Verifies the interpreter, omega from /repo and both BDD back ends.
set -e
cd "$(dirname "$0")"
/venv/bin/python - <<'PY'
import sys
sys.path.insert(0, '/repo')
import omega, dd.cudd, dd.autoref, networkx
print('omega from', omega.__file__)
PY
mkdir -p evidence replays
echo setup ok
