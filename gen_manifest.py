#!/usr/bin/env python3
"""Regenerate MANIFEST.json from the table below (kept valid at all times)."""
import json, os
HERE = os.path.dirname(os.path.abspath(__file__))
props = [json.loads(l) for l in open(os.path.join(HERE, 'properties.jsonl'))]
ids = [p['id'] for p in props]

CHECKS = {
 'C01': dict(
    category='exploration', design='4/C01',
    technique='bounded exhaustive input enumeration against an explicit-state game arena solved by Zielonka (explicit-state model checking as oracle)',
    text='Every Streett(1) game of two complete 2-bit families (all 16x16 action pairs in three support classes, 4 modes) and of six wider declaration shapes is solved by the library and by an explicit arena solver; regions must be equal as sets over the full bit range. Exhaustive within that scope, which is where quantifier-order, priming and fixpoint-initialisation errors show.',
    note='trusts dd (cudd/autoref), CPython, the bit-level read-out and the Zielonka reference (self-tested against brute force); says nothing beyond 2-4 bits of state'),
 'C02': dict(
    category='model_checking', design='4/C02',
    technique='explicit-state exploration of the closed loop env x synthesized implementation (all reachable states, transitions, SCC fair-cycle criterion), BFS paths replayed through the real action BDD',
    text='For every realizable game of the families (initial conditions rotating over the 4 qinit forms) the Streett transducer is built by the library; the product with the environment is explored explicitly over full bit ranges. Safety items are invariants on every reachable state / every step of the action table; liveness is decided on SCCs, i.e. for all infinite behaviours, not sampled plays.',
    note='trusts dd, the read-out, networkx SCCs and the arena reference for "winning"; scope 2-4 spec bits plus memory'),
 'C03': dict(
    category='exploration', design='4/C03',
    technique='bounded exhaustive enumeration of initial-condition combinations per game against the documented quantified formulas on explicit tables',
    text='All admissible (qinit, EnvInit, SysInit) of a menu for every game (Streett and Rabin, 4 modes): verdict vs. formula over the reference region; constructed init[impl] checked for soundness and the quantifier pattern.',
    note='strict reading for plus_one: SysInit unconditionally (documented form); stricter-but-valid initial conditions are accepted'),
 'C04': dict(
    category='exploration', design='4/C04',
    technique='bounded exhaustive input enumeration against an explicit-state game arena solved by Zielonka; determinacy (duality) checked between two library runs and the arena partition',
    text='Every Rabin(1) game of the families vs. the arena; every Streett game paired with its dual Rabin game built in a fresh context; regions must partition the bit range. Also sequences of solves in one reused automaton.',
    note='as C01'),
 'C05': dict(
    category='model_checking', design='4/C05',
    technique='explicit-state exploration of the closed loop env x synthesized Rabin implementation (reachable states, SCC criterion), BFS paths replayed through the real action BDD',
    text='As C02 for make_rabin_transducer with memory (_hold, _goal): refinement, memory ranges, never blocked while obliged, Moore independence, Rabin fair-cycle criterion on SCCs.',
    note='as C02; blocked states are classified by whether the environment is forced to break its action (signature of fixed finding F3)'),
 'C11': dict(
    category='exploration', design='4/C11',
    technique='bounded exhaustive enumeration of actions and state sets; least/greatest fixpoints decided by Knaster-Tarski over all subsets of the explicit state space',
    text='step vs. pointwise formula on every state set; attractor/trap vs. intersection of all pre-fixpoints / union of all post-fixpoints over all subsets (literal least/greatest, not a re-run of the iteration); image and descendants vs. explicit successors; 4 modes, fresh and reused automata.',
    note='descendants is checked against the properties stated (within constraint, closed, between constrained and plain reachability), not against one particular iteration'),
 'C06': dict(
    category='exploration', design='4/C06',
    technique='bounded exhaustive enumeration of formula templates x type-hint shapes, every assignment of the bit ranges compared with an independent evaluator',
    text='Template families T1-T8 over 14 hint shapes (all ordered pairs for binary arithmetic and comparators); each formula translated by Context.add_expr and compared row by row over the full bit range with an evaluator over unbounded integers; 2 back ends x 2 prefix translators.',
    note='formulas are printed fully parenthesised (precedence is C16); four documented refusals R1-R4 (arithmetic left of \\in, comparison as operand of Boolean equality, re-binding a LET name, integer operators with arithmetic bodies) are counted, not alarms'),
 'C07': dict(
    category='exploration', design='4/C07',
    technique='bounded exhaustive enumeration of predicates x every subset of variables, each Context operation compared with the same operation on explicit tables',
    text='For every predicate of a menu (formulas and unions of explicit points) every subset of the variables is used as quantified set and as care set; let with every value, renamings incl. swaps/chains, apply, assign_from for every point, support, copy; both back ends.',
    note='tables are read out at bit level, independent of pick_iter'),
 'C18': dict(
    category='exploration', design='4/C18',
    technique='bounded exhaustive enumeration of all type hints in a window and of predicate x variable-subset combinations for priming/renaming',
    text='All 190 hints in -9..9 plus a sparse set to +-40: representability, bitfield limits, four type-hint predicates, implies_type_hints; priming/unpriming/replace_with_primed for every subset of variables, rename_variables, support classification vs. semantic dependence, with rigid constants present.',
    note='representable values are discovered by asking the translator "x = v" for every v of a window'),
 'C08': dict(
    category='exploration', design='4/C08',
    technique='bounded exhaustive enumeration of predicates x care sets x printing options; printed formula re-parsed and compared point by point, disjuncts decomposed and checked as boxes',
    text='All predicates over small grids of each sign class with four kinds of care sets and all option combinations; to_expr output must re-parse, agree with f on the care set, and decompose into boxes inside f|~care covering f.',
    note='the placeholder conjunct "care expression" (pinned by the test-suite) is read as TRUE; coverage of points outside the hints is not demanded when clipping to hints (show_dom) is in effect'),
 'C09': dict(
    category='exploration', design='4/C09',
    technique='bounded exhaustive enumeration of cover problems against brute-force primes and exhaustive minimum set cover',
    text='All predicates over grids of up to 8 points, every cyclic-core instance and a spread sample of three 16-point grids (thorough: all 65535 of each), four kinds of care sets; cover.minimize must return only maximal boxes, cover f, and have minimum cardinality.',
    note='reference enumerates all boxes and all minimum covers explicitly; says nothing about covers beyond 16 points'),
 'C10': dict(
    category='exploration', design='4/C10',
    technique='as C09; the returned set of covers must equal the exhaustively computed set of all minimum prime covers',
    text='cover_enum.minimize on the same problem families: terminates, returns exactly all minimum covers by primes, uniform size, contains cover.minimize\'s cover.',
    note='as C09'),
 'C13': dict(
    category='exploration', design='4/C13',
    technique='bounded exhaustive execution: every generated program run on every input state of the bit ranges; all 256 three-bit roots emitted and executed in both target syntaxes',
    text='For a menu of relations (formulas and explicit tables) over signed, unsigned, all-negative and Boolean variables the generated step() is executed on every state with an admissible output and checked against the relation\'s table; dumps_bdd_as_code for all 256 functions of 3 bits (single, shared, complemented) executed on all inputs in Python and, token-mapped, C.',
    note='relations come from a menu, not from all formulas; the C text is executed after a token mapping rather than compiled'),
 'C14': dict(
    category='exploration', design='4/C14',
    technique='bounded exhaustive enumeration of all relations over 4 bits x output requests x extraction orders x restrict path x manager',
    text='All 65536 relations over two input and two output bits (and one input / three outputs) with every output request incl. an ignored bit, both extraction orders, with and without CUDD restrict, CUDD and autoref managers: supports, membership for every solvable input, forced inputs inside the care set.',
    note='"care set contains the forced inputs" is checked (not equality): the cofactor optimisation enlarges care sets on purpose'),
 'C15': dict(
    category='exploration', design='4/C15',
    technique='bounded exhaustive enumeration of formulas to depth 2 (+ block of depth 3) x all traces of length 4 / all lassos of size <= 3, tester evolution tabulated per letter pair',
    text='Every past formula over {p,q} to depth 2 is translated; on every trace the auxiliary variables must have exactly one solution of init/trans and the translated formula must equal the anchored semantics at every position; until-fragment on all small lassos with exactly one periodic prophecy valuation.',
    note='traces of length 4 (5 thorough) suffice for depth <= 2 testers to leave their initial phase; deeper nesting is only sampled'),
 'C16': dict(
    category='exploration', design='4/C16',
    technique='bounded exhaustive enumeration of token strings from the documented operator table against a precedence-climbing parser generated from that table',
    text='All ordered operator pairs (plain and parenthesised), level triples, prefix/postfix interactions, spellings, comments at every boundary: tree equality with the table-generated parser; parse(flatten(t)) = t; split_gr1 on permutations and nestings of GR(1) conjuncts and on a menu of shapes outside the fragment.',
    note='the table is read from doc/doc.md at run time; junction lists (bulleted /\\ \\/) are not in the documented grammar and are not covered'),
 'C19': dict(
    category='model_checking', design='4/C19',
    technique='explicit-state exploration: stepper called at every state x input and breadth-first over all admissible input sequences to depth 4; assemblies explored over all orders of colliding component menus',
    text='AutomatonStepper over synthesized implementations: every state/input answered against the action table (values or ValueError), BFS over all environment sequences; Assembly with mock, Scheduler and real stepper components whose names collide on purpose: local states, mangling, and every recorded step.',
    note='AutomatonStepper.init returns only the variables its pick assigns; assemblies are driven with initial conditions that mention every component variable'),
 'C12': dict(
    category='model_checking', design='4/C12',
    technique='explicit-state checking of the returned graph: every node and edge against the action tables, input completeness at every node, SCC fair-cycle criterion, edges re-confirmed through Context.let',
    text='action_to_steps on synthesized Streett/Rabin implementations (4 qinit forms rotating) and hand-made (init, action) pairs x 4 forms x Moore/Mealy: node uniqueness, initial nodes per form, every edge allowed by both actions, exactly one edge per admissible next environment value at every node, liveness on all cycles.',
    note='premise of the enumerator: the environment action does not read the component\'s next values (such games are skipped and counted); blocking implementations (finding F13) are skipped'),
 'C17': dict(
    category='model_checking', design='4/C17',
    technique='explicit operation-sequence exploration (all event sequences up to a depth bound on fresh objects) against a reference model that stores truth tables, on 2 back ends x 2 translators',
    text='All sequences up to length 3 (thorough 4) over a 19-event alphabet of context operations, and all sequences up to length 5 (6) over a 10-event alphabet around the expression cache, ending in observations: earlier results keep their tables, repeated operations agree, every printed init/action expression evaluates to the BDD it labels.',
    note='no state merging is used for pruning (hidden state is the subject); states are only counted'),
 'C20': dict(
    category='exploration', design='4/C20',
    technique='bounded exhaustive enumeration of labelled graphs (all edge subsets / all label assignments on small node sets) compared with the produced action over all valuations',
    text='All unlabelled edge subsets on {0},{0,1},{0,2},{0,1,2}; all assignments of 5 labels to the node pairs of {0,1}; parallel edges; node labels; both owners, self_loops, ignore_initial, initial sets: owner action, initial condition and the other player\'s action compared pointwise with the graph.',
    note='receptive=True only exercised for the owner\'s action (its assumptions are not specified by the property)'),
}

NOT_YET = 'check not built yet in this session (design in DESIGN.md section 4); will be claimed once its machinery runs clean on the unchanged tree'

m = dict(
    version=1,
    setup_cmd='cd /verif && ./setup.sh',
    hooks=dict(
        guard='OMEGA_VERIF',
        enable='none needed: every property is observable through return values; checks import omega from /repo (or $OMEGA_SRC) and use public seams only',
        baseline_off_cmd='cd /repo && /venv/bin/python -m pytest -ra -q -p no:cacheprovider --timeout=900 --continue-on-collection-errors',
        source_commits=[],
        add_only=True),
    engines=[dict(name='vlib', path='/verif/vlib', serves_properties=sorted(CHECKS),
                  kind_free_text='hand-written explicit-state / bounded-exhaustive explorers in Python driving the real omega functions; reference models: explicit game arena + Zielonka, closed-loop product graphs + SCC fair-cycle criterion, truth-table formula model, brute-force box covers')],
    checks=[], not_applicable=[],
    notes='see DESIGN.md; ./check <id> [--tier quick|thorough] [--replay path]; known findings in known_findings.json')
for pid in ids:
    if pid in CHECKS:
        c = CHECKS[pid]
        m['checks'].append(dict(
            property_id=pid,
            quick_cmd=f'./check {pid} --tier quick',
            thorough_cmd=f'./check {pid} --tier thorough',
            evidence_file=f'/verif/evidence/{pid}.json',
            replay_cmd_template=f'./check {pid} --replay {{path}}',
            engine='vlib',
            level_claimed=dict(category=c['category'], text=c['text'], design_ref=c['design']),
            level_note=c['note'], technique=c['technique']))
    else:
        m['not_applicable'].append(dict(property_id=pid, reason=NOT_YET))
json.dump(m, open(os.path.join(HERE, 'MANIFEST.json'), 'w'), indent=1)
print('checks:', len(m['checks']), 'not_applicable:', len(m['not_applicable']))
