#!/usr/bin/env python3
"""Regenerate MANIFEST.json from the table below (kept valid at all times)."""
import json, os
HERE = os.path.dirname(os.path.abspath(__file__))
props = [json.loads(l) for l in open(os.path.join(HERE, 'properties.jsonl'))]
ids = [p['id'] for p in props]

CHECKS = {
 'C01': dict(
    category='exploration', design='4/C01',
    technique='bounded exhaustive input enumeration against an explicit-state game arena solved by Zielonka (explicit-state model checking as oracle)',
    text='Every Streett(1) game of two complete 2-bit families (all 16x16 action pairs in three support classes, 4 modes) and of six wider declaration shapes is solved by the library and by an explicit arena solver; regions must be equal as sets over the full bit range. Exhaustive within that scope, which is where quantifier-order, priming and fixpoint-initialisation errors show.',
    note='trusts dd (cudd/autoref), CPython, the bit-level read-out and the Zielonka reference (self-tested against brute force); says nothing beyond 2-4 bits of state'),
}

NOT_YET = 'check not built yet in this session (design in DESIGN.md section 4); will be claimed once its machinery runs clean on the unchanged tree'

m = dict(
    version=1,
    setup_cmd='cd /verif && ./setup.sh',
    hooks=dict(
        guard='OMEGA_VERIF',
        enable='none needed: every property is observable through return values; checks import omega from /repo (or $OMEGA_SRC) and use public seams only',
        baseline_off_cmd='cd /repo && /venv/bin/python -m pytest -ra -q -p no:cacheprovider --timeout=900 --continue-on-collection-errors',
        source_commits=[],
        add_only=True),
    engines=[dict(name='vlib', path='/verif/vlib', serves_properties=sorted(CHECKS),
                  kind_free_text='hand-written explicit-state / bounded-exhaustive explorers in Python driving the real omega functions; reference models: explicit game arena + Zielonka, closed-loop product graphs + SCC fair-cycle criterion, truth-table formula model, brute-force box covers')],
    checks=[], not_applicable=[],
    notes='see DESIGN.md; ./check <id> [--tier quick|thorough] [--replay path]; known findings in known_findings.json')
for pid in ids:
    if pid in CHECKS:
        c = CHECKS[pid]
        m['checks'].append(dict(
            property_id=pid,
            quick_cmd=f'./check {pid} --tier quick',
            thorough_cmd=f'./check {pid} --tier thorough',
            evidence_file=f'/verif/evidence/{pid}.json',
            replay_cmd_template=f'./check {pid} --replay {{path}}',
            engine='vlib',
            level_claimed=dict(category=c['category'], text=c['text'], design_ref=c['design']),
            level_note=c['note'], technique=c['technique']))
    else:
        m['not_applicable'].append(dict(property_id=pid, reason=NOT_YET))
json.dump(m, open(os.path.join(HERE, 'MANIFEST.json'), 'w'), indent=1)
print('checks:', len(m['checks']), 'not_applicable:', len(m['not_applicable']))
